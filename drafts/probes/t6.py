import dd.bdd as B, itertools, sys, logging, random
from ev import *
names = ['a','b','c']
N = 3
asgs = list(itertools.product([False,True], repeat=N))
idx = {a:i for i,a in enumerate(asgs)}
def build(b, table):
    r = -1
    for bits, val in zip(asgs, table):
        if not val: continue
        c = b.cube(dict(zip(names, bits)))
        r = b.apply('or', r, c)
    return r
bad = 0
tables = list(itertools.product([False,True], repeat=2**N))
random.seed(1)
for perm in itertools.permutations(range(N)):
    b = B.BDD({n:p for n,p in zip(names, perm)})
    fs = {}
    for t in tables:
        u = build(b, t); b.incref(u); fs[t] = u
    # cofactor: all partial assignments
    for t,u in fs.items():
        for k in range(1,N+1):
            for q in itertools.combinations(names,k):
                for vals in itertools.product([False,True], repeat=k):
                    d = dict(zip(q,vals))
                    r = b.let(d, u)
                    exp = tuple(t[idx[tuple(d.get(n, x) for n,x in zip(names,bits))]] for bits in asgs)
                    if tt(b,r,names)!=exp: bad+=1; print('COF BAD', perm,t,d)
        # rename: all maps var->var for subsets
        for k in range(1,N+1):
            for q in itertools.combinations(names,k):
                for tgt in itertools.product(names, repeat=k):
                    d = dict(zip(q,tgt))
                    try:
                        r = b.let(d, u)
                    except Exception as e:
                        bad+=1; print('REN EXC', perm, t, d, type(e), e); continue
                    exp = tuple(t[idx[tuple(dict(zip(names,bits))[d.get(n,n)] for n in names)]] for bits in asgs)
                    if tt(b,r,names)!=exp: bad+=1; print('REN BAD', perm,t,d)
    # compose: sampled
    for _ in range(3000):
        t = random.choice(tables); u = fs[t]
        k = random.randint(1,3)
        q = random.sample(names,k)
        gts = [random.choice(tables) for _ in q]
        d = {v: fs[g] for v,g in zip(q,gts)}
        r = b.let(d, u)
        def e(bits):
            a = dict(zip(names,bits))
            a2 = dict(a)
            for v,g in zip(q,gts): a2[v] = g[idx[bits]]
            return t[idx[tuple(a2[n] for n in names)]]
        exp = tuple(e(bits) for bits in asgs)
        if tt(b,r,names)!=exp: bad+=1; print('COMP BAD', perm,t,q,gts)
print('bad',bad)
