import dd.bdd as B, dd.autoref as A, logging
from ev import *
logging.getLogger('dd').setLevel(logging.ERROR)
names=['a','b','c','d']
def mk():
    s=A.BDD(); s.declare(*names); u=s.add_expr(r'(a <=> c) /\ (b <=> d)'); return s,u
s,u=mk(); base=tt(s._bdd,u.node,names)
s.dump('g.p',[u])
for L in range(0,14):
    for mode in ['copy','load']:
        t=A.BDD(); t.declare('d','c','b','a') if mode=='copy' else t.declare(*names)
        keep=t.add_expr(r'a /\ d')
        t._bdd._last_len=L/2
        try:
            r = s.copy(u,t) if mode=='copy' else t.load('g.p')[0]
            ok = tt(t._bdd,r.node,names)==base
            print(mode,L,'ok' if ok else 'WRONG', t.configure()['reordering'])
        except BaseException as e:
            print(mode,L,'EXC',type(e).__name__, str(e)[:50])
        r=None
