import dd.bdd as B, dd.autoref as A
from ev import *
import itertools, warnings
# Force the trigger: patch _request_reordering to fire at k-th call when enabled
def run(k, op):
    b = A.BDD()
    names = ['x0',"x0'",'x1',"x1'"]
    b.declare(*names)
    m = b._bdd
    trans = b.add_expr(r"(x0' <=> ~x0) /\ (x1' <=> (x0 # x1))")
    src = b.add_expr(r"x0 /\ ~x1")
    tgt = b.add_expr(r"x0 /\ x1")
    cnt = [0]
    orig = B._request_reordering
    def req(bdd):
        if bdd._last_len is None: return
        cnt[0]+=1
        if cnt[0]==k:
            saved=bdd._last_len; bdd._last_len=0
            try: orig(bdd)
            finally:
                if bdd._last_len==0: bdd._last_len=saved
    B._request_reordering = req
    b.configure(reordering=True)
    try:
        r = op(b, trans, src, tgt)
        return ('ok', tt(m, r.node, names), b.configure()['reordering'], dict(b.vars))
    except BaseException as e:
        return ('EXC', type(e).__name__, str(e)[:80])
    finally:
        B._request_reordering = orig
def img(b,t,s,g): return A.image(t, s, {"x0'":'x0',"x1'":'x1'}, {'x0','x1'})
def pre(b,t,s,g): return A.preimage(t, g, {'x0':"x0'",'x1':"x1'"}, {"x0'","x1'"})
def foa(b,t,s,g): return b.find_or_add('x0', s, g)
def cp(b,t,s,g):
    o = A.BDD(); o.declare("x1'",'x1',"x0'",'x0'); o.configure(reordering=True)
    r = b.copy(t, o)
    return r
for name, op in [('image',img),('preimage',pre),('find_or_add',foa)]:
    base = run(10**9, op)
    print(name, 'base', base[:2])
    for k in range(1, 12):
        r = run(k, op)
        flag = '' if (r[0]=='ok' and r[1]==base[1]) else '   <<<<< DIFF'
        print('  k',k, r[0], r[1] if r[0]=='EXC' else '', r[2] if r[0]=='ok' else r[2], flag)
