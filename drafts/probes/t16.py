import dd.bdd as B, dd.mdd as M, itertools, random, logging, collections
from ev import *
logging.getLogger('dd').setLevel(logging.ERROR)
random.seed(5)
# --- C07 swap exhaustive: all pairs of functions over 3 vars, all orders, both adjacent pairs
names=['a','b','c']; asgs=list(itertools.product([False,True],repeat=3))
def build(b,t):
    r=-1
    for bits,val in zip(asgs,t):
        if val: r=b.apply('or',r,b.cube(dict(zip(names,bits))))
    return r
def inv(b, ledger):
    n=len(b.vars)
    assert sorted(b.vars.values())==list(range(n))
    assert b._succ[1]==(n,None,None)
    indeg=collections.Counter(); seen=set()
    for u,(i,v,w) in b._succ.items():
        if u==1: continue
        assert 0<=i<n and w>0 and v!=w and abs(v) in b._succ and w in b._succ
        assert b._succ[abs(v)][0]>i and b._succ[w][0]>i, ('order',u)
        assert (i,v,w) not in seen; seen.add((i,v,w))
        assert b._pred[(i,v,w)]==u
        indeg[abs(v)]+=1; indeg[w]+=1
    assert len(b._pred)==len(b._succ)
    for u in b._succ:
        assert b._ref[u]==indeg[u]+ledger.get(u,0)+(1 if u==1 else 0), ('ref',u,b._ref[u],indeg[u],ledger.get(u,0))
bad=0;n=0
tables=list(itertools.product([False,True],repeat=8))
for perm in itertools.permutations(range(3)):
    for t1 in tables:
        t2=random.choice(tables)
        for lv in (0,1):
            b=B.BDD({nm:p for nm,p in zip(names,perm)})
            u=build(b,t1); b.incref(u); v=build(b,t2); b.incref(v)
            led=collections.Counter([abs(u),abs(v)])
            b.swap(lv,lv+1); n+=1
            try:
                inv(b,led)
                assert tt(b,u,names)==t1 and tt(b,v,names)==t2
            except AssertionError as e:
                bad+=1; print('SWAP BAD',perm,t1,t2,lv,e)
            b.decref(u); b.decref(v)
print('swap n',n,'bad',bad)
# --- C14
b=B.BDD(); b.declare('x','y','z','w')
u=b.add_expr(r'x /\ w'); b.incref(u)
b.collect_garbage()
print(b.undeclare_vars('y'), b.vars, b._level_to_var, tt(b,u,['x','w']))
try: b.undeclare_vars('x')
except ValueError as e: print('refused used')
try: b.undeclare_vars('q')
except ValueError as e: print('refused unknown')
print(b.undeclare_vars(), b.vars, b._succ)
print(b.add_var('x'), b.add_var('n'), b.vars)
for args in [('x',1),('k',0),('k',3),('k',7)]:
    try: print('add_var',args,b.add_var(*args), b.vars, b._succ[1])
    except ValueError as e: print('add_var',args,'refused')
b.decref(u)
