import dd.autoref as A, dd._copy as C, dd.bdd as B, itertools, random, os, sys, logging
from ev import *
logging.getLogger('dd').setLevel(logging.ERROR)
names=['a','b','c']
asgs=list(itertools.product([False,True],repeat=3))
def build(b,t):
    r=b.false
    for bits,val in zip(asgs,t):
        if val: r = r | b.cube(dict(zip(names,bits)))
    return r
random.seed(0); bad=0; n=0
tables=list(itertools.product([False,True],repeat=8))
for p1 in itertools.permutations(range(3)):
  for p2 in itertools.permutations(range(3)):
    src=A.BDD({n:p for n,p in zip(names,p1)})
    ts=random.sample(tables,6)
    us=[build(src,t) for t in ts]
    for mode in ['json_list','json_dict','json_order','pickle_fresh','pickle_nolevels','copy','copy_bdd','copy_bdds_from']:
        tgt=A.BDD({n:p for n,p in zip(names+['z'],list(p2)+[3])}) if mode not in ('json_order','pickle_fresh') else A.BDD()
        pre = tgt.add_expr(r'a /\ z') if 'z' in tgt.vars else None
        try:
            if mode=='json_list':
                src.dump('f.json', us); rs=tgt.load('f.json')
            elif mode=='json_dict':
                src.dump('f.json', {str(i):u for i,u in enumerate(us)}); d=tgt.load('f.json'); rs=[d[str(i)] for i in range(len(us))]
            elif mode=='json_order':
                C.dump_json(us,'f.json'); rs=C.load_json('f.json', tgt, load_order=True)
                assert dict(tgt.vars)==dict(src.vars)
            elif mode=='pickle_fresh':
                src.dump('f.p', us); rs=tgt.load('f.p')
            elif mode=='pickle_nolevels':
                src.dump('f.p', us); rs=tgt.load('f.p', levels=False)
            elif mode=='copy':
                rs=[src.copy(u,tgt) for u in us]
            elif mode=='copy_bdd':
                rs=[A.copy_bdd(u,tgt) for u in us]
            elif mode=='copy_bdds_from':
                rs=C.copy_bdds_from(us,tgt)
        except Exception as e:
            bad+=1; print('EXC',mode,p1,p2,type(e).__name__,str(e)[:60]); continue
        for t,r in zip(ts,rs):
            n+=1
            if tt(tgt._bdd, r.node, names)!=t: bad+=1; print('BAD',mode,p1,p2)
        try: tgt.assert_consistent()
        except AssertionError as e: bad+=1; print('INCONS',mode,p1,p2,e)
        del rs, pre
        try: d=None
        except: pass
print('n',n,'bad',bad)
