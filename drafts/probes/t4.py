import dd.bdd as B
from ev import *
def run(k, op):
    b = B.BDD()
    names = ['a','b','c','d']
    b.declare(*names)
    u = b.add_expr(r"(a <=> c) /\ (b <=> d)"); b.incref(u)
    base = tt(b,u,names)
    cnt = [0]
    orig = B._request_reordering
    def req(bdd):
        if bdd._last_len is None: return
        cnt[0]+=1
        if cnt[0]==k:
            saved=bdd._last_len; bdd._last_len=0
            try: orig(bdd)
            finally:
                if bdd._last_len==0: bdd._last_len=saved
    B._request_reordering = req
    b.configure(reordering=True)
    try:
        op(b)
        b.assert_consistent()
        return ('ok', tt(b, u, names)==base, b.configure()['reordering'], dict(b.vars))
    except BaseException as e:
        try:
            b.assert_consistent(); c='consistent'
        except BaseException as e2: c='INCONSISTENT %r'%(e2,)
        return ('EXC', type(e).__name__, c)
    finally:
        B._request_reordering = orig
        b._ref = {k:0 for k in b._ref}
for name, op in [('reorder', lambda b: B.reorder(b)), ('swap', lambda b: b.swap('b','c')), ('reorder_to', lambda b: B.reorder(b, dict(a=0,c=1,b=2,d=3))), ('pairs', lambda b: B.reorder_to_pairs(b, {'a':'c'}))]:
    for k in range(1, 6):
        print(name, k, run(k, op))
