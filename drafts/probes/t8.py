import dd.bdd as B, dd.mdd as M, itertools, sys, logging, random
from ev import *
logging.getLogger('dd.bdd').setLevel(logging.ERROR)
random.seed(int(sys.argv[1]) if len(sys.argv)>1 else 0)
bits = ['a0','a1','b0','c0','c1']
N=len(bits)
asgs = list(itertools.product([False,True], repeat=N))
def evm(mdd, r, ival):
    neg=False
    while True:
        if r<0: neg=not neg; r=-r
        if r==1: return not neg
        t = mdd._succ[r]; var = mdd.var_at_level(t[0]); r = t[1+ival[var]]
bad=0;n=0
groups = {'a':['a0','a1'],'b':['b0'],'c':['c0','c1']}
for trial in range(300):
    order = bits[:]; random.shuffle(order)
    b = B.BDD({v:i for i,v in enumerate(order)})
    ilev = list(groups); random.shuffle(ilev)
    dvars = {g: dict(level=ilev.index(g), len=2**len(bs), bitnames=list(bs)) for g,bs in groups.items()}
    refs=[]
    for k in range(random.randint(1,4)):
        # random function via random expression of minterm tables
        t = tuple(random.random()<0.5 for _ in asgs)
        r=-1
        for a,val in zip(asgs,t):
            if val: r=b.apply('or', r, b.cube(dict(zip(bits,a))))
        if random.random()<0.3: r = b.quantify(r, random.sample(bits,2))
        b.incref(r); refs.append((r, tt(b,r,bits)))
    try:
        mdd, umap = M.bdd_to_mdd(b, dvars)
    except Exception as e:
        bad+=1; print('EXC', type(e), e, order, ilev); 
        for r,_ in refs: b.decref(r)
        continue
    for r,t in refs:
        if tt(b,r,bits)!=t: bad+=1; print('BDD changed')
        if abs(r) not in umap:
            bad+=1; print('missing in umap', r); continue
        m = umap[abs(r)]; m = -m if r<0 else m
        for a,val in zip(asgs,t):
            av = dict(zip(bits,a))
            ival = {g: sum((1<<i) for i,bn in enumerate(bs) if av[bn]) for g,bs in groups.items()}
            n+=1
            if evm(mdd,m,ival)!=val: bad+=1; print('MDD BAD', order, ilev); break
        b.decref(r)
print('n',n,'bad',bad)
