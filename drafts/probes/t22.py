# throwaway feasibility probe: per-path reference balance in .pyx functions (Cython AST)
import sys, collections
from Cython.Compiler.TreeFragment import parse_from_strings
from Cython.Compiler import Nodes, ExprNodes
from Cython.Compiler.Visitor import TreeVisitor
REF={'Cudd_Ref','cuddRef','sylvan_ref','bdd_addref'}
DEREF={'Cudd_RecursiveDeref','Cudd_RecursiveDerefZdd','Cudd_Deref','cuddDeref','sylvan_deref','bdd_delref'}
def fname(call):
    f=call.function
    if isinstance(f,ExprNodes.NameNode): return f.name
    if isinstance(f,ExprNodes.AttributeNode): return f.attribute
    return None
def expr_text(e):
    if isinstance(e,ExprNodes.NameNode): return e.name
    if isinstance(e,ExprNodes.AttributeNode): return expr_text(e.obj)+'.'+e.attribute
    if isinstance(e,ExprNodes.IndexNode): return expr_text(e.base)+'[]'
    return type(e).__name__
def calls_in(node):
    out=[]
    class V(TreeVisitor):
        def visit_Node(s,n): s.visitchildren(n)
        def visit_SimpleCallNode(s,n): out.append(n); s.visitchildren(n)
    V().visit(node); return out
def cond_text(c, src_lines):
    return src_lines[c.pos[1]-1].strip()
class Path(Exception): pass
def paths(stats, i, led, out, depth, conds, src):
    # stats: list of stat nodes; returns list of (ledger, fallthrough?) via out callbacks
    if len(out)>20000: raise Path('too many')
    if i==len(stats):
        return [(led,conds)]
    st=stats[i]
    def cont(led2,conds2): return paths(stats,i+1,led2,out,depth,conds2,src)
    t=type(st).__name__
    res=[]
    if t=='StatListNode':
        for l,c in paths(st.stats,0,led,out,depth,conds,src): res+=cont(l,c)
        return res
    if t in('ReturnStatNode','RaiseStatNode'):
        l=apply_calls(st,led)
        out.append((t, st.pos[1], l, expr_text(st.value) if t=='ReturnStatNode' and st.value is not None else None))
        return []
    if t=='IfStatNode':
        # correlated conditions by source text
        branches=[]
        for cl in st.if_clauses:
            branches.append((cond_text(cl.condition,src)+'@'+str(cl.condition.pos[2]), cl.body))
        led0=led
        def rec(k, led, conds):
            r=[]
            if k==len(branches):
                if st.else_clause is not None:
                    for l,c in paths([st.else_clause],0,led,out,depth,conds,src): r+=cont(l,c)
                else: r+=cont(led,conds)
                return r
            ct,body=branches[k]
            key=ct.split('@')[0]
            known=conds.get(key)
            if known is not False:
                c2=dict(conds); c2[key]=True
                for l,c in paths([body],0,led,out,depth,c2,src): r+=cont(l,c)
            if known is not True:
                c2=dict(conds); c2[key]=False
                r+=rec(k+1,led,c2)
            return r
        return rec(0,led,conds)
    if t in('ForInStatNode','WhileStatNode','ForFromStatNode'):
        # 0 and 1 iterations
        res+=cont(led,conds)
        for l,c in paths([st.body],0,led,out,depth,conds,src): res+=cont(l,c)
        return res
    if t=='TryFinallyStatNode':
        for l,c in paths([st.body],0,led,out,depth,conds,src):
            for l2,c2 in paths([st.finally_clause],0,l,out,depth,c,src): res+=cont(l2,c2)
        return res
    if t=='TryExceptStatNode':
        for l,c in paths([st.body],0,led,out,depth,conds,src): res+=cont(l,c)
        return res
    # plain statement: apply calls, invalidate conds on assignment
    l=apply_calls(st,led)
    c2=conds
    if t in('SingleAssignmentNode','CascadedAssignmentNode','ParallelAssignmentNode','InPlaceAssignmentNode'):
        names=set()
        class V(TreeVisitor):
            def visit_Node(s,n): s.visitchildren(n)
            def visit_NameNode(s,n): names.add(n.name)
        lhs=getattr(st,'lhs',None)
        if lhs is not None: V().visit(lhs)
        c2={k:v for k,v in conds.items() if not any(nm in k for nm in names)}
    return cont(l,c2)
def apply_calls(st,led):
    led=dict(led)
    for c in calls_in(st):
        f=fname(c)
        if f in REF:
            a=expr_text(c.args[0]); led[a]=led.get(a,0)+1
        elif f in DEREF:
            a=expr_text(c.args[-1]); led[a]=led.get(a,0)-1
    return led
for mod in ['cudd','cudd_zdd','sylvan','buddy']:
    text=open(f'/repo/dd/{mod}.pyx',encoding='utf8').read(); src=text.split('\n')
    tree=parse_from_strings('dd.'+mod,text)
    funcs=[]
    class F(TreeVisitor):
        def visit_Node(s,n): s.visitchildren(n)
        def visit_CFuncDefNode(s,n):
            d=n.declarator
            while not hasattr(d,'name') and hasattr(d,'base'): d=d.base
            funcs.append((getattr(d,'name','?'),n)); s.visitchildren(n)
        def visit_DefNode(s,n): funcs.append((n.name,n)); s.visitchildren(n)
    F().visit(tree)
    nf=0; npaths=0; bad=0
    for name,n in funcs:
        cs=[fname(c) for c in calls_in(n.body)]
        if not any(c in REF|DEREF for c in cs): continue
        nf+=1
        out=[]
        try:
            ft=paths([n.body],0,{},out,0,{},src)
        except Path as e:
            print(mod,name,'PATH EXPLOSION'); continue
        for l,c in ft: out.append(('fall',None,l,None))
        npaths+=len(out)
        for kind,line,l,ret in out:
            imb={k:v for k,v in l.items() if v!=0}
            if imb:
                bad+=1
                if bad<=40: print(f'  {mod}.{name} exit={kind}@{line} ret={ret} imbalance={imb}')
    print(mod,'functions with ref ops',nf,'paths',npaths,'imbalanced exits',bad)
