import dd.bdd as B, itertools, sys
from ev import *
names = ['a','b','c']
N = 3
asgs = list(itertools.product([False,True], repeat=N))
def build(b, table):
    """build function from truth table tuple via ite on minterms"""
    r = -1
    for bits, val in zip(asgs, table):
        if not val: continue
        c = b.cube(dict(zip(names, bits)))
        r = b.apply('or', r, c)
    return r
bad = 0
for perm in itertools.permutations(range(N)):
    b = B.BDD({n:p for n,p in zip(names, perm)})
    fs = {}
    for t in itertools.product([False,True], repeat=2**N):
        u = build(b, t); b.incref(u); fs[t] = u
        assert tt(b,u,names)==t
    # canonical: distinct tables -> distinct refs
    assert len(set(fs.values()))==256
    # C03 quantify
    for t,u in fs.items():
        for k in range(N+1):
            for q in itertools.combinations(names,k):
                for fa in (False,True):
                    r = b.quantify(u, q, forall=fa)
                    got = tt(b,r,names)
                    exp = []
                    for bits in asgs:
                        a = dict(zip(names,bits))
                        vals = []
                        for qb in itertools.product([False,True], repeat=k):
                            a2 = dict(a); a2.update(zip(q,qb)); vals.append(t[asgs.index(tuple(a2[n] for n in names))])
                        exp.append(all(vals) if fa else any(vals))
                    if got != tuple(exp): bad+=1; print('Q BAD', perm, t, q, fa)
        # count / pick
        sup = b.support(u)
        realsup = {n for i,n in enumerate(names) if any(t[asgs.index(bits)] != t[asgs.index(tuple((not x) if j==i else x for j,x in enumerate(bits)))] for bits in asgs)}
        if sup != realsup: bad+=1; print('SUP BAD', perm, t, sup, realsup)
        for n in range(len(sup), len(sup)+3):
            c = b.count(u, n)
            exp = sum(t) * 2**n // 2**N
            if c != exp: bad+=1; print('COUNT BAD', perm,t,n,c,exp)
        ms = list(b.pick_iter(u))
        if len(ms)!= b.count(u): bad+=1; print('PICK BAD len')
        for care in [set(), {'a'}, {'a','b','c'}, {'c'}]:
            ms = list(b.pick_iter(u, care))
            covered = set()
            for m in ms:
                if not care <= set(m): bad+=1; print('PICK care missing', perm,t,care,m)
                free = [n for n in names if n not in m]
                for fb in itertools.product([False,True], repeat=len(free)):
                    a = dict(m); a.update(zip(free,fb))
                    key = tuple(a[n] for n in names)
                    if key in covered: bad+=1; print('PICK overlap', perm, t, care)
                    covered.add(key)
                    if not t[asgs.index(key)]: bad+=1; print('PICK nonmodel')
            if len(covered)!=sum(t): bad+=1; print('PICK cover', perm, t, care)
print('bad', bad)
