import dd.dddmp as D, itertools, logging, traceback
from ev import *
logging.getLogger('dd').setLevel(logging.ERROR)
# function: root = (a & ~c) | (~a & b&c) over names a,b,c ; extra var d unused
# nodes (file ids): 1=T ; c-node:2 = (c: T=1,E=-1) ; bc: 3=(b: T=2, E=-1) ; nc = ~c is -2
# root 4 = (a: T = ~c -> need T regular: a ? ~c : b&c.  ~c complemented as then-edge not allowed => root' = ~(a ? c : ~(b&c)) => node 4=(a: T=2, E=-3) root=-4
def mk(varinfo, header, order_names, perm):
    # perm: dict name->permid
    lines=['.ver DDDMP-2.0','.mode A',f'.varinfo {varinfo}','.nnodes 4',f'.nvars {len(order_names)}','.nsuppvars 3']
    supp=['a','b','c']
    if 'supp' in header: lines.append('.suppvarnames '+' '.join(supp))
    if 'ord' in header: lines.append('.orderedvarnames '+' '.join(order_names))
    ids={n:i for i,n in enumerate(order_names)}
    lines.append('.ids '+' '.join(str(ids[n]) for n in supp))
    lines.append('.permids '+' '.join(str(perm[n]) for n in supp))
    lines+=['.nroots 1','.rootids -4','.nodes']
    def info(n):
        return {0:ids[n],1:perm[n],3:n}[varinfo]
    lines.append('1 T 1 0 0')
    lines.append(f'2 {info("c")} {ids["c"]} 1 -1')
    lines.append(f'3 {info("b")} {ids["b"]} 2 -1')
    lines.append(f'4 {info("a")} {ids["a"]} 2 -3')
    lines.append('.end')
    open('g.dddmp','w').write('\n'.join(lines)+'\n')
exp=None
for varinfo in (0,1,3):
    for header in (('supp','ord'),('supp',),('ord',),()):
        for gaps in (False,True):
            order=['a','b','c','d'] if not gaps else ['a','d','b','c']
            perm={n:i for i,n in enumerate(order)}
            mk(varinfo,header,order,perm)
            try:
                b=D.load('g.dddmp')
                names=[b.var_at_level(i) for i in range(len(b.vars))]
                res=[(r, tt(b,r,names)) for r in b.roots]
                print(varinfo,header,gaps,'vars',b.vars,'roots',res)
            except Exception as e:
                print(varinfo,header,gaps,'EXC',type(e).__name__,str(e)[:80])
