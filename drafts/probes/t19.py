# throwaway BFS prototype: measure state counts/throughput for a C06-like alphabet
import dd.bdd as B, itertools, time, collections, sys, warnings
warnings.simplefilter('ignore')
class Q(B.BDD):
    def __del__(self): pass
NV=int(sys.argv[1]); D=int(sys.argv[2]); HMAX=3
names=['a','b','c'][:NV]
nas=2**NV; FULL=(1<<nas)-1
X={}
for i,n in enumerate(names):
    m=0
    for a in range(nas):
        if (a>>i)&1: m|=1<<a
    X[n]=m
def clone(m):
    n=Q.__new__(Q); nd={}
    for k,v in m.__dict__.items():
        nd[k]= dict(v) if type(v) is dict else (set(v) if type(v) is set else v)
    n.__dict__=nd; return n
def key(m,H):
    out=[]
    for k,v in m.__dict__.items():
        if type(v) is dict: out.append((k,tuple(v.items())))
        elif type(v) is set: out.append((k,tuple(sorted(v))))
        else: out.append((k,v))
    return (tuple(out),H)
def masks(m):
    memo={1:FULL}
    def f(u):
        if u<0: return FULL^f(-u)
        r=memo.get(u)
        if r is None:
            i,v,w=m._succ[u]; x=X[m._level_to_var[i]]
            r=(x&f(w))|((FULL^x)&f(v)); memo[u]=r
        return r
    return f
def oracle(m,H):
    n=len(m.vars); indeg=collections.Counter(); seen=set()
    for u,(i,v,w) in m._succ.items():
        if u==1: continue
        assert 0<=i<n and w>0 and v!=w
        assert m._succ[abs(v)][0]>i and m._succ[w][0]>i
        assert (i,v,w) not in seen; seen.add((i,v,w)); assert m._pred[(i,v,w)]==u
        indeg[abs(v)]+=1; indeg[w]+=1
    ext=collections.Counter(abs(r) for r,_ in H)
    for u in m._succ: assert m._ref[u]==indeg[u]+ext[u]+(u==1), (u, m._ref[u], indeg[u], ext[u])
    f=masks(m); ms={}
    for u in m._succ:
        x=f(u); assert x not in ms and (FULL^x) not in ms; ms[x]=u
    for r,mk in H: assert f(r)==mk
OPS={'and':lambda p,q:p&q,'xor':lambda p,q:p^q}
def succs(m,H):
    # yields (label, fn(m)->newH)
    for n in names:
        if len(H)<HMAX: yield ('var',n)
    for o in OPS:
        for i in range(len(H)):
            for j in range(len(H)):
                yield ('ap',o,i,j,True) if len(H)<HMAX else None
                yield ('ap',o,i,j,False)
    for i in range(len(H)):
        yield ('neg',i)
        yield ('drop',i)
    yield ('gc',)
    for l in range(NV-1): yield ('swap',l)
def step(m,H,lab):
    H=list(H)
    if lab[0]=='var':
        r=m.var(lab[1]); m.incref(r); H.append((r,X[lab[1]]))
    elif lab[0]=='ap':
        _,o,i,j,hold=lab; r=m.apply(o,H[i][0],H[j][0]); mk=OPS[o](H[i][1],H[j][1])
        assert masks(m)(r)==mk
        if hold: m.incref(r); H.append((r,mk))
    elif lab[0]=='neg':
        r,mk=H[lab[1]]; m.incref(-r); H.append((-r,FULL^mk)) if len(H)<HMAX else m.decref(r)
    elif lab[0]=='drop':
        r,mk=H.pop(lab[1]); m.decref(r)
    elif lab[0]=='gc': m.collect_garbage()
    elif lab[0]=='swap': m.swap(lab[1],lab[1]+1)
    return tuple(H)
m0=Q(); m0.declare(*names)
seen={key(m0,())}; frontier=[(m0,())]; trans=0; t0=time.time()
for d in range(1,D+1):
    nxt=[]
    for m,H in frontier:
        for lab in succs(m,H):
            if lab is None: continue
            c=clone(m); H2=step(c,H,lab); trans+=1
            oracle(c,H2)
            k=key(c,H2)
            if k not in seen: seen.add(k); nxt.append((c,H2))
    frontier=nxt
    print('depth',d,'states',len(seen),'frontier',len(frontier),'trans',trans,'t',round(time.time()-t0,1), flush=True)
print('rate', trans/(time.time()-t0))
