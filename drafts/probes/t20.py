import dd.bdd as B, itertools, time, logging, random
logging.getLogger('dd').setLevel(logging.ERROR)
class Q(B.BDD):
    def __del__(self): pass
names=['x','xp','y','yp']
b=Q({n:i for i,n in enumerate(names)})
asgs=list(itertools.product([False,True],repeat=4))
random.seed(0)
fs=[]
t0=time.time()
# node-by-node construction from truth table (route r1) for speed
def build(t, lvl=0, lo=0, hi=16):
    if lvl==4: return 1 if t[lo] else -1
    mid=(lo+hi)//2
    return b.find_or_add(lvl, build(t,lvl+1,lo,mid), build(t,lvl+1,mid,hi))
N=4096
for k in range(N):
    t=[random.random()<0.5 for _ in range(16)]
    u=build(t); b.incref(u); fs.append(u)
print('build', (time.time()-t0)/N*1e6,'us each', len(b))
sets=[]
for t in itertools.product([False,True],repeat=4):
    # function of x,y only
    tt=[t[(a>>3&1)*2+(a>>1&1)] for a in range(16)]
    u=build(tt); b.incref(u); sets.append(u)
t0=time.time(); n=0
for u in fs:
    for s in sets:
        B.preimage(u, s, {'x':'xp','y':'yp'}, {'xp','yp'}, b); n+=1
dt=time.time()-t0
print('preimage', n/dt,'per s'); 
t0=time.time(); n=0
for u in fs[:1024]:
    for s in sets:
        B.image(u, s, {'xp':'x','yp':'y'}, {'x','y'}, b); n+=1
print('image', n/(time.time()-t0),'per s', len(b))
t0=time.time(); n=0
for u in fs[:2048]:
    for q in (['x'],['x','y'],['xp','y','yp']):
        b.quantify(u,q); n+=1
print('quantify', n/(time.time()-t0),'per s')
