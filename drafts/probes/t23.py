# throwaway feasibility probe: extract apply dispatch from Cython AST
from Cython.Compiler.TreeFragment import parse_from_strings
from Cython.Compiler import Nodes, ExprNodes
from Cython.Compiler.Visitor import TreeVisitor
def find_funcs(tree,name):
    out=[]
    class F(TreeVisitor):
        def visit_Node(s,n): s.visitchildren(n)
        def visit_CFuncDefNode(s,n):
            d=n.declarator
            while not hasattr(d,'name') and hasattr(d,'base'): d=d.base
            if getattr(d,'name',None)==name: out.append(n)
            s.visitchildren(n)
        def visit_DefNode(s,n):
            if n.name==name: out.append(n)
            s.visitchildren(n)
    F().visit(tree); return out
def show(e):
    t=type(e).__name__
    if isinstance(e,ExprNodes.NameNode): return e.name
    if isinstance(e,ExprNodes.AttributeNode): return show(e.obj)+'.'+e.attribute
    if isinstance(e,ExprNodes.SimpleCallNode): return show(e.function)+'('+', '.join(show(a) for a in e.args)+')'
    if isinstance(e,ExprNodes.IntNode): return e.value
    if isinstance(e,(ExprNodes.UnicodeNode,ExprNodes.StringNode)): return repr(e.value)
    if isinstance(e,ExprNodes.UnaryMinusNode): return '-'+show(e.operand)
    if isinstance(e,ExprNodes.NullNode): return 'NULL'
    if isinstance(e,ExprNodes.TupleNode): return '('+', '.join(show(a) for a in e.args)+')'
    return '<'+t+'>'
def cond_syms(c):
    # op in (...)  /  op == 'x'
    if isinstance(c,ExprNodes.PrimaryCmpNode) and show(c.operand1)=='op':
        if c.operator=='in' and isinstance(c.operand2,ExprNodes.TupleNode):
            return [a.value for a in c.operand2.args]
        if c.operator=='==': return [c.operand2.value]
    return None
def walk_if(st, out):
    for cl in st.if_clauses:
        syms=cond_syms(cl.condition)
        body=cl.body.stats if isinstance(cl.body,Nodes.StatListNode) else [cl.body]
        acts=[]
        for b in body:
            if isinstance(b,Nodes.SingleAssignmentNode): acts.append(show(b.lhs)+' = '+show(b.rhs))
            elif isinstance(b,Nodes.ReturnStatNode): acts.append('return '+show(b.value))
            elif isinstance(b,Nodes.RaiseStatNode): acts.append('raise')
            else: acts.append('<'+type(b).__name__+'>')
        out.append((syms if syms is not None else '?'+show(cl.condition), acts))
for path in ['/repo/dd/cudd.pyx','/repo/dd/cudd_zdd.pyx','/repo/dd/sylvan.pyx','/repo/dd/buddy.pyx']:
    tree=parse_from_strings('m',open(path,encoding='utf8').read())
    fs=find_funcs(tree,'apply')
    for f in fs:
        print('==',path,type(f).__name__)
        body=f.body.stats
        for st in body:
            if isinstance(st,Nodes.IfStatNode):
                out=[]; walk_if(st,out)
                for syms,acts in out:
                    if isinstance(syms,list): print('   ',syms,'->',acts)
