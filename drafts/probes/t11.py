import dd.autoref as A, dd.bdd as B, itertools, random, sys, logging, gc, collections
from ev import *
logging.getLogger('dd').setLevel(logging.ERROR)
random.seed(int(sys.argv[1]) if len(sys.argv)>1 else 0)
names=['a','b','c','d']
def check(b, hs):
    m=b._bdd
    indeg=collections.Counter()
    for u,(i,v,w) in m._succ.items():
        if v is not None: indeg[abs(v)]+=1; indeg[abs(w)]+=1
    ext=collections.Counter(abs(h.node) for h,_ in hs)
    for u in m._succ:
        exp = indeg[u]+ext[u]+(1 if u==1 else 0)
        if m._ref[u]!=exp: return 'REF %d: %d != %d'%(u,m._ref[u],exp)
    for h,t in hs:
        if tt(m,h.node,names)!=t: return 'DENOT'
    return None
bad=0
for trial in range(300):
    b=A.BDD(); b.declare(*names)
    if random.random()<0.5: b.configure(reordering=True); b._bdd._last_len=random.choice([2,3,5,8])
    hs=[]
    for step in range(40):
        op=random.choice(['var','apply','not','drop','gc','reorder','low','high','succ','let','quant','expr','dup','ite'])
        try:
            if op=='var': h=b.var(random.choice(names)); hs.append((h,tt(b._bdd,h.node,names)))
            elif op=='apply' and len(hs)>=2:
                (x,tx),(y,ty)=random.sample(hs,2); o=random.choice(['and','or','xor','=>','<=>','-'])
                h=b.apply(o,x,y); f={'and':lambda p,q:p and q,'or':lambda p,q:p or q,'xor':lambda p,q:p!=q,'=>':lambda p,q:(not p) or q,'<=>':lambda p,q:p==q,'-':lambda p,q:p and not q}[o]
                hs.append((h,tuple(f(p,q) for p,q in zip(tx,ty))))
            elif op=='ite' and len(hs)>=3:
                (x,tx),(y,ty),(z,tz)=random.sample(hs,3); h=b.ite(x,y,z); hs.append((h,tuple(q if p else r for p,q,r in zip(tx,ty,tz))))
            elif op=='not' and hs: x,tx=random.choice(hs); hs.append((~x,tuple(not p for p in tx)))
            elif op=='drop' and hs: i=random.randrange(len(hs)); hs.pop(i)
            elif op=='gc': b.collect_garbage()
            elif op=='reorder' and not b.configure()['reordering']: b.reorder()
            elif op in('low','high') and hs:
                x,tx=random.choice(hs); h=getattr(x,op)
                if h is not None: hs.append((h,tt(b._bdd,h.node,names)))
            elif op=='succ' and hs:
                x,tx=random.choice(hs); i,v,w=b.succ(x)
                if v is not None: hs.append((v,tt(b._bdd,v.node,names)))
                del v,w
            elif op=='dup' and hs: x,tx=random.choice(hs); hs.append((b._add_int(int(x)),tx))
            elif op=='quant' and hs: x,tx=random.choice(hs); h=b.exist([random.choice(names)],x); hs.append((h,tt(b._bdd,h.node,names)))
            elif op=='let' and hs: x,tx=random.choice(hs); h=b.let({random.choice(names):random.choice(names)},x); hs.append((h,tt(b._bdd,h.node,names)))
            elif op=='expr': h=b.add_expr(random.choice([r'a /\ b',r'\E a: (a \/ c) /\ ~d',r'ite(a,b,c)'])); hs.append((h,tt(b._bdd,h.node,names)))
        except Exception as e:
            print('EXC',op,type(e).__name__,e); bad+=1; break
        h=x=y=z=None
        r=check(b,hs)
        if r: print('BAD',trial,step,op,r); bad+=1; break
    hs.clear(); h=x=y=z=None
    m=b._bdd
    try:
        m.__del__()
    except AssertionError as e:
        print('SHUTDOWN FAIL', trial); bad+=1
    if len(m)!=1: print('not only terminal', len(m)); bad+=1
print('bad',bad)
