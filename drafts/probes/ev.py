import itertools, dd.bdd as B
def ev(bdd, u, asg):
    """evaluate ref u under dict var->bool"""
    neg = False
    while True:
        if u < 0:
            neg = not neg; u = -u
        if u == 1:
            return not neg
        i, v, w = bdd._succ[u]
        var = bdd._level_to_var[i]
        u = w if asg[var] else v
def tt(bdd, u, names):
    return tuple(ev(bdd, u, dict(zip(names, bits))) for bits in itertools.product([False, True], repeat=len(names)))
