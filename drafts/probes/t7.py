import dd.bdd as B, itertools, sys, logging, random
from ev import *
logging.getLogger('dd.bdd').setLevel(logging.ERROR)
names = ['x','xp','y','yp']
N=4
asgs = list(itertools.product([False,True], repeat=N))
idx = {a:i for i,a in enumerate(asgs)}
def build(b, table):
    # via nested ite on vars by truth table, order-agnostic: sum of minterms
    r = -1
    for bits, val in zip(asgs, table):
        if not val: continue
        r = b.apply('or', r, b.cube(dict(zip(names,bits))))
    return r
def rnd_table(sup):
    # random function depending only on vars in sup
    k=len(sup); vals=[random.random()<0.5 for _ in range(2**k)]
    sub = list(itertools.product([False,True], repeat=k))
    return tuple(vals[sub.index(tuple(b for n,b in zip(names,bits) if n in sup))] for bits in asgs)
def quant(t, q, fa):
    out=[]
    for bits in asgs:
        a=dict(zip(names,bits)); vals=[]
        for qb in itertools.product([False,True], repeat=len(q)):
            a2=dict(a); a2.update(zip(q,qb)); vals.append(t[idx[tuple(a2[n] for n in names)]])
        out.append(all(vals) if fa else any(vals))
    return tuple(out)
def ren(t, d):
    return tuple(t[idx[tuple(dict(zip(names,bits))[d.get(n,n)] for n in names)]] for bits in asgs)
def conj(s,t): return tuple(a and b for a,b in zip(s,t))
random.seed(int(sys.argv[1]) if len(sys.argv)>1 else 0)
bad=0; n=0
for perm in itertools.permutations(range(N)):
    order = {nm:p for nm,p in zip(names,perm)}
    adj = abs(order['x']-order['xp'])==1 and abs(order['y']-order['yp'])==1
    b = B.BDD(order)
    for _ in range(150):
        trans = rnd_table(names)
        fa = random.random()<0.5
        ut = build(b, trans); b.incref(ut)
        # preimage (only adjacent)
        if adj:
            pairs = random.choice([{'x':'xp'},{'y':'yp'},{'x':'xp','y':'yp'}])
            tgt = rnd_table([n for n in names if n not in pairs.values()])
            q = [v for v in names if random.random()<0.5]
            vt = build(b, tgt); b.incref(vt)
            r = B.preimage(ut, vt, pairs, q, b, fa)
            exp = quant(conj(trans, ren(tgt, pairs)), q, fa)
            n+=1
            if tt(b,r,names)!=exp: bad+=1; print('PRE BAD', order, pairs, q, fa)
            b.decref(vt)
        # image: any order
        pairs = random.choice([{'xp':'x'},{'yp':'y'},{'xp':'x','yp':'y'}])
        src = rnd_table(names)
        # precondition: rename targets quantified or absent from operands
        q = set(v for v in names if random.random()<0.5) | set(pairs.values())
        vs = build(b, src); b.incref(vs)
        try:
            r = B.image(ut, vs, pairs, q, b, fa)
        except AssertionError as e:
            print('IMG precond?', e); continue
        exp = ren(quant(conj(trans, src), q, fa), pairs)
        n+=1
        if tt(b,r,names)!=exp: bad+=1; print('IMG BAD', order, pairs, sorted(q), fa, adj)
        b.decref(vs); b.decref(ut)
    b.collect_garbage()
    b._ref[1]=1
print('n',n,'bad',bad)
