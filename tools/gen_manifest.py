#!/usr/bin/env python3
"""Regenerate MANIFEST.json from the table below (run from /verif)."""
import json
import os

HERE = os.path.dirname(os.path.dirname(os.path.abspath(__file__)))

MC = ('model_checking', 'explicit-state model checking of the implementation (bounded-depth BFS over '
      'real objects, exact state hashing, replay-validated traces)')
EX = ('exploration', 'bounded-exhaustive enumeration of inputs/configurations on the implementation '
      'against a truth-table reference model (model checking of a sequential library: every input '
      'of the stated finite domain)')

CHECKS = {
    'C01': (EX[0], EX[1] + ' + explicit-state BFS over histories',
            'all pairs/ITE triples of F(3) x aliases x orders x contexts, autoref Function operators, '
            'F(4) x probe set (thorough); BFS over histories compares every result with the model',
            'DESIGN.md 2/C01'),
    'C02': (MC[0], MC[1] + ' + exhaustive construction-route sweep',
            'state invariant (canonicity incl. semantic distinctness) in every BFS state; every function '
            'of n<=3 (4 thorough) variables built by 10 routes must give the same integer',
            'DESIGN.md 2/C02'),
    'C03': (EX[0], EX[1] + ' + explicit-state BFS over mixed-operation histories',
            'all functions x all subsets x both quantifiers x orders x contexts x entry points; wide '
            'managers; BFS over histories mixing connectives, ite, quantifiers, let, collections, swaps',
            'DESIGN.md 2/C03'),
    'C04': (EX[0], EX[1] + ' + explicit-state BFS over mixed-operation histories',
            'all functions x all partial assignments x all variable maps x single replacements from F(3) x '
            'tuples from family G; wide managers; BFS over mixed-operation histories', 'DESIGN.md 2/C04'),
    'C05': (EX[0], 'bounded-exhaustive enumeration of programs (formulas) of the documented grammar, each '
            'parsed by the real add_expr and compared with an independent precedence-climbing evaluator',
            'every ordered pair of binary spellings x 8 shapes, chains, binders at every position, ite, '
            'constants, @n of both signs, comments at every token boundary, whitespace variants, '
            'identifier forms, to_expr round trip for all of F(3)', 'DESIGN.md 2/C05'),
    'C06': (MC[0], MC[1], 'every history over the stated alphabets up to the completed depth; '
            'exact-count / canonicity / denotation invariants in every state', 'DESIGN.md 2/C06'),
    'C07': (MC[0], MC[1] + ' + exhaustive sweeps over held sets, orders, targets and pairings',
            'every swap case over held singletons/pairs of F(3), every source x target permutation, every '
            'pairing, sifting to a fixed point (all level-visiting orders observed), 0/1-variable managers; '
            'BFS over reordering histories', 'DESIGN.md 2/C07'),
    'C08': (MC[0], MC[1], 'every history of constructions, Function operators, traversals, duplicates, drops '
            'in any order, collections, reorderings over dd.autoref up to the completed depth, dynamic '
            'reordering off / firing naturally / forced at position k; exact counts vs live Function '
            'registry; shutdown check after dropping all handles in every rotation', 'DESIGN.md 2/C08'),
    'C09': (MC[0], 'stateless model checking of the implementation: deviation-bounded enumeration of '
            'reordering-trigger schedules (0, 1, 2 deviations + natural thresholds) under a controlled '
            'trigger seam',
            'every operation x every position of the reordering request (forced k=1..K+2, natural '
            'thresholds, lowered REORDER_STARTS), pairs of positions over pairs of operations; result, '
            'operands, bystanders, counts, configuration compared with the reordering-off baseline and '
            'the model', 'DESIGN.md 2/C09'),
    'C10': (EX[0], EX[1], 'all functions x all care sets x all n up to support+3 x orders',
            'DESIGN.md 2/C10'),
    'C11': (EX[0], EX[1], 'all functions x all order pairs x target kinds x 7 copy routes; source key '
            'unchanged; target oracle', 'DESIGN.md 2/C11'),
    'C12': (EX[0], EX[1], 'order pairs x root tuples x formats x flags x target states; refusal '
            'accepted only for documented conflicts', 'DESIGN.md 2/C12'),
    'C13': (EX[0], EX[1], 'one pair exhaustive; two pairs: all of F(4) x 16 sets canonical, family for '
            'other configurations; three pairs over relation family', 'DESIGN.md 2/C13'),
    'C14': (MC[0], MC[1], 'every history of declarations / constructions / collections / swaps / removals '
            '(every subset) up to the completed depth; list model of the order decides accept/refuse',
            'DESIGN.md 2/C14'),
    'C15': (EX[0], EX[1] + ' + explicit-state BFS over the MDD manager',
            'bdd_to_mdd over bit groupings x integer orders x bit orders x held sets, evaluated on every '
            'integer assignment; MDD algebra over all functions of domains (3,2) and (2,3,2); BFS over MDD '
            'histories with exact-count oracle', 'DESIGN.md 2/C15'),
    'C16': (EX[0], 'bounded-exhaustive enumeration of input files: every node numbering (all linear extensions) '
            'x header/varinfo modes x orders x gaps, generated independently of dd and loaded by the real '
            'loader',
            'every non-constant function of 3 variables (+ pairs, triples, 4-variable probes) x orders x '
            'extra variables x 10 header modes x all numberings; known finding F4 matched by a precise '
            'signature, any other mismatch is a violation', 'DESIGN.md 2/C16'),
    'C17': ('fault_enumeration', 'fault enumeration over explicit-state exploration: every rejected call of '
            'the menu injected in every state of a BFS of valid histories, followed by invariant '
            'check and differential continuation',
            'every state x every fault (x forced reordering positions inside the failing call when '
            'dynamic reordering is on); oracle right after the exception; every continuation must behave '
            'as from an unfaulted copy; token-position edits of valid formulas; valid calls cut short by RecursionError at every depth', 'DESIGN.md 2/C17'),
    'C18': (EX[0], EX[1], 'all functions, root sets of size 1-2, every view evaluated',
            'DESIGN.md 2/C18'),
    'C19': (MC[0], 'explicit-state exploration of models extracted mechanically from the .pyx source on every '
            'run (operator dispatch interpreted on all valuations; per-function reference-count path '
            'automaton), with the extractor conformance-checked by replaying sibling-model traces against '
            'the running pure-Python apply methods',
            'the C extensions cannot be built offline: decided on a source-level model with a stated trusted '
            'base of primitive meanings; every accepted symbol x arity x valuation compared with the running '
            'dd.bdd.BDD.apply; every path of every function touching reference primitives balanced',
            'DESIGN.md 2/C19'),
}

NOTE = ('trusted: CPython 3.12, mc/ref.py (truth tables), mc/oracle.py (independent denotation walker and '
        'invariant checker; never calls assert_consistent); dd imported from /repo working tree')


def main():
    props = [json.loads(l) for l in open(os.path.join(HERE, 'properties.jsonl'))]
    ids = [p['id'] for p in props]
    checks = []
    for pid in ids:
        if pid not in CHECKS:
            continue
        cat, tech, text, ref = CHECKS[pid]
        checks.append(dict(
            property_id=pid,
            quick_cmd=f'./check {pid} --tier quick',
            thorough_cmd=f'./check {pid} --tier thorough',
            evidence_file=f'/verif/evidence/{pid}.json',
            replay_cmd_template=f'./check {pid} --replay {{path}}',
            engine='ddmc',
            level_claimed=dict(category=cat, text=text, design_ref=ref),
            level_note=NOTE,
            technique=tech))
    na_path = os.path.join(HERE, 'tools', 'not_applicable.json')
    reasons = json.load(open(na_path)) if os.path.exists(na_path) else {}
    na = [dict(property_id=pid,
               reason=reasons.get(pid, 'check not yet built in this revision (work in progress; '
                                       'see DESIGN.md)'))
          for pid in ids if pid not in CHECKS]
    man = dict(
        version=1,
        setup_cmd='true',
        hooks=dict(
            guard='DD_VERIF',
            enable='no source hooks: every seam is reached from outside (module attributes, '
                   'subclassing); checks import dd from /repo working tree (DD_REPO overrides)',
            baseline_off_cmd='cd /repo && /venv/bin/python -m pytest -ra -q -p no:cacheprovider '
                             '--timeout=900 --continue-on-collection-errors',
            source_commits=[], add_only=True),
        engines=[dict(
            name='ddmc', path='/verif/mc', serves_properties=sorted(CHECKS),
            kind_free_text='hand-written explicit-state explorer over the real Python objects '
                           '(BFS with exact state hashing, deviation-bounded schedule enumeration, '
                           'fault enumeration, replay validation) + exhaustive bounded input '
                           'enumeration against a truth-table reference model')],
        checks=checks,
        not_applicable=na,
        notes='see DESIGN.md; known_findings.json lists genuine defects (fixed / known)')
    with open(os.path.join(HERE, 'MANIFEST.json'), 'w') as f:
        json.dump(man, f, indent=1)
    print('checks:', [c['property_id'] for c in checks], 'not_applicable:', len(na))


if __name__ == '__main__':
    main()
