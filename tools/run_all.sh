#!/bin/sh
# usage: tools/run_all.sh [quick|thorough] [seed]   -- runs every check, prints one line each
tier=${1:-quick}; seed=${2:-0}
cd "$(dirname "$0")/.." || exit 2
rc=0
for p in ${PROPS:-C01 C02 C03 C04 C05 C06 C07 C08 C09 C10 C11 C12 C13 C14 C15 C16 C17 C18 C19}; do
  out=$(VERIF_SEED=$seed ./check $p --tier $tier 2>&1); c=$?
  echo "$out" | grep -E "^(VIOLATION|HARNESS|$p )" | cut -c1-220
  [ $c -ne 0 ] && { rc=1; echo "  -> exit $c for $p"; echo "$out" | tail -5 | cut -c1-300; }
done
exit $rc
