#!/bin/sh
# usage: tools/detect_all.sh [tier]  -- applies every mutant and every seed to a scratch copy and
# runs the check of its property; prints CAUGHT / MISSED per patch. Exit 1 if anything is missed.
tier=${1:-quick}
cd "$(dirname "$0")/.." || exit 2
miss=0
run_one() {  # patch, prop
  d=$(mktemp -d /tmp/dddet.XXXXXX)
  (cd /repo && git ls-files -z | xargs -0 cp --parents -t "$d")
  (cd "$d" && patch -p1 -s < "$1") || { echo "PATCH-FAILS $1"; rm -rf "$d"; return; }
  out=$(DD_REPO="$d" VERIF_EVIDENCE_DIR="$d/.evidence" ./check $2 --tier $tier 2>/dev/null); c=$?
  rm -rf "$d"
  if [ $c -eq 1 ] && echo "$out" | grep -q "^VIOLATION property=$2"; then echo "CAUGHT  $2  $1"; else echo "MISSED  $2  $1 (exit $c)"; miss=1; fi
  find replays -name '*.json' -delete 2>/dev/null
}
for f in mutants/*.diff; do p=$(basename "$f" | cut -c1-3); run_one "$(readlink -f $f)" $p; done
for dd_ in seeded/*/; do
  if grep -q '"not_caught": true' "$dd_/meta.json"; then echo "NOT-CAUGHT-BY-DESIGN $dd_"; continue; fi
  p=$(python3 -c "import json,sys; m=json.load(open('$dd_/meta.json')); c=m['caught_by_quick_tier'][0]; print(c.split()[0])")
  run_one "$(readlink -f $dd_/patch.diff)" $p
done
exit $miss
