#!/venv/bin/python
"""Systematic first-order mutants of dd/*.py, to test the CHECKS (not a deciding step).

usage:
  tools/mutate.py gen  <out.json> [files...]       enumerate mutants (operators below)
  tools/mutate.py tests <in.json> <out.json> [-j N]  keep those with which the baseline test
                                                   outcome is unchanged
  tools/mutate.py run  <in.json> <out.json> [--stride K --offset O]
                                                   run the checks mapped to each mutant's
                                                   function; records killed / survived

Operators: comparison flips (== != < <= > >= is/is not, in/not in), and/or, dropped `not`,
dropped unary minus, dropped abs(), 0<->1, True<->False, + <-> -, statement deletion of bare
calls (incref/decref/add/update/pop/...), += <-> -=, swapped adjacent name arguments.
"""
import ast
import json
import os
import shutil
import subprocess
import sys
import tempfile

REPO = os.environ.get('DD_REPO_SRC', '/repo')
FILES = ['dd/bdd.py', 'dd/autoref.py', 'dd/_copy.py', 'dd/mdd.py', 'dd/dddmp.py', 'dd/_parser.py',
         'dd/_utils.py', 'dd/_abc.py']

CMP = {ast.Eq: ('==', '!='), ast.NotEq: ('!=', '=='), ast.Lt: ('<', '<='), ast.LtE: ('<=', '<'),
       ast.Gt: ('>', '>='), ast.GtE: ('>=', '>'), ast.Is: ('is', 'is not'),
       ast.IsNot: ('is not', 'is'), ast.In: ('in', 'not in'), ast.NotIn: ('not in', 'in')}


def _offsets(src):
    offs = [0]
    for line in src.splitlines(keepends=True):
        offs.append(offs[-1] + len(line))
    return offs


class Gen(ast.NodeVisitor):
    def __init__(self, path, src):
        self.path = path
        self.src = src
        self.b = src.encode('utf8')
        self.offs = _offsets(src)
        self.lines = src.splitlines(keepends=True)
        self.out = []
        self.stack = []

    # positions: ast col offsets are in UTF-8 bytes
    def pos(self, lineno, col):
        line_start = sum(len(l.encode('utf8')) for l in self.lines[:lineno - 1])
        return line_start + col

    def span(self, node):
        return self.pos(node.lineno, node.col_offset), self.pos(node.end_lineno, node.end_col_offset)

    def add(self, a, b, new, kind):
        old = self.b[a:b].decode('utf8')
        if old == new:
            return
        lineno = self.b[:a].count(b'\n') + 1
        self.out.append(dict(file=self.path, start=a, end=b, old=old, new=new, kind=kind,
                             line=lineno, func='.'.join(self.stack) or '<module>'))

    def visit_FunctionDef(self, node):
        self.stack.append(node.name)
        for st in node.body:
            # skip docstrings
            if isinstance(st, ast.Expr) and isinstance(st.value, ast.Constant) and isinstance(
                    st.value.value, str):
                continue
            self.visit(st)
        self.stack.pop()
    visit_AsyncFunctionDef = visit_FunctionDef

    def visit_ClassDef(self, node):
        self.stack.append(node.name)
        for st in node.body:
            self.visit(st)
        self.stack.pop()

    def _between(self, left, right, tok):
        a = self.span(left)[1]
        b = self.span(right)[0]
        seg = self.b[a:b].decode('utf8')
        i = seg.find(tok)
        if i < 0:
            return None
        a2 = a + len(seg[:i].encode('utf8'))
        return a2, a2 + len(tok.encode('utf8'))

    def visit_Compare(self, node):
        left = node.left
        for op, right in zip(node.ops, node.comparators):
            t = CMP.get(type(op))
            if t:
                # tokens like "is not" may contain several spaces in the source
                sp = self._between(left, right, t[0].split()[0])
                if sp:
                    a, b = sp
                    if ' ' in t[0]:
                        seg = self.b[a:self.span(right)[0]].decode('utf8')
                        j = seg.find('not') if t[0] != 'not in' else seg.find('in')
                        b = a + len(seg[:j].encode('utf8')) + (3 if t[0] != 'not in' else 2)
                    self.add(a, b, t[1], 'cmp')
            left = right
        self.generic_visit(node)

    def visit_BoolOp(self, node):
        tok = 'and' if isinstance(node.op, ast.And) else 'or'
        new = 'or' if tok == 'and' else 'and'
        for l, r in zip(node.values, node.values[1:]):
            sp = self._between(l, r, tok)
            if sp:
                self.add(sp[0], sp[1], new, 'boolop')
        self.generic_visit(node)

    def visit_UnaryOp(self, node):
        a, b = self.span(node)
        oa, ob = self.span(node.operand)
        if isinstance(node.op, ast.Not):
            self.add(a, oa, '', 'drop-not')
        elif isinstance(node.op, ast.USub) and not isinstance(node.operand, ast.Constant):
            self.add(a, oa, '', 'drop-neg')
        self.generic_visit(node)

    def visit_Call(self, node):
        if isinstance(node.func, ast.Name) and node.func.id == 'abs' and len(node.args) == 1:
            a, b = self.span(node)
            ia, ib = self.span(node.args[0])
            self.add(a, b, '(' + self.b[ia:ib].decode('utf8') + ')', 'drop-abs')
        # swap two adjacent positional arguments that are plain names / signed names
        simple = (ast.Name,)
        for x, y in zip(node.args, node.args[1:]):
            if isinstance(x, simple) and isinstance(y, simple) and x.id != y.id:
                xa, xb = self.span(x)
                ya, yb = self.span(y)
                mid = self.b[xb:ya].decode('utf8')
                self.add(xa, yb, y.id + mid + x.id, 'swap-args')
        self.generic_visit(node)

    def visit_Constant(self, node):
        a, b = self.span(node)
        v = node.value
        if v is True:
            self.add(a, b, 'False', 'const')
        elif v is False:
            self.add(a, b, 'True', 'const')
        elif isinstance(v, int) and not isinstance(v, bool) and v in (0, 1, 2):
            self.add(a, b, {0: '1', 1: '0', 2: '1'}[v], 'const')

    def visit_BinOp(self, node):
        if isinstance(node.op, (ast.Add, ast.Sub)):
            tok = '+' if isinstance(node.op, ast.Add) else '-'
            sp = self._between(node.left, node.right, tok)
            if sp:
                self.add(sp[0], sp[1], '-' if tok == '+' else '+', 'arith')
        self.generic_visit(node)

    def visit_AugAssign(self, node):
        if isinstance(node.op, (ast.Add, ast.Sub)):
            tok = '+=' if isinstance(node.op, ast.Add) else '-='
            sp = self._between(node.target, node.value, tok)
            if sp:
                self.add(sp[0], sp[1], '-=' if tok == '+=' else '+=', 'augassign')
        self.generic_visit(node)

    def visit_Expr(self, node):
        if isinstance(node.value, ast.Call):
            f = node.value.func
            name = f.attr if isinstance(f, ast.Attribute) else getattr(f, 'id', '')
            if not name.startswith(('_assert', 'assert', 'warn', 'debug', 'info', 'print')) and \
                    name not in ('warning',):
                a, b = self.span(node)
                self.add(a, b, 'pass', 'del-call')
        self.generic_visit(node)

    def visit_Raise(self, node):
        return      # messages of exceptions are not interesting

    def visit_Assert(self, node):
        return


def gen(out, files):
    res = []
    for f in files:
        src = open(os.path.join(REPO, f), encoding='utf8').read()
        g = Gen(f, src)
        g.visit(ast.parse(src))
        res += g.out
    for i, m in enumerate(res):
        m['id'] = i
    json.dump(res, open(out, 'w'), indent=0)
    print(len(res), 'mutants')


def apply_mutant(m, root):
    p = os.path.join(root, m['file'])
    b = open(p, 'rb').read()
    assert b[m['start']:m['end']].decode('utf8') == m['old'], m
    nb = b[:m['start']] + m['new'].encode('utf8') + b[m['end']:]
    open(p, 'wb').write(nb)
    return b


def scratch():
    d = tempfile.mkdtemp(prefix='ddmut.', dir='/tmp')
    subprocess.check_call('cd %s && git ls-files -z | xargs -0 cp --parents -t %s' % (REPO, d),
                          shell=True)
    return d


def _tests_worker(args):
    chunk, = args
    d = scratch()
    out = []
    try:
        for m in chunk:
            orig = apply_mutant(m, d)
            try:
                compile(open(os.path.join(d, m['file']), encoding='utf8').read(), m['file'], 'exec')
            except SyntaxError:
                m['tests'] = 'syntax'
                open(os.path.join(d, m['file']), 'wb').write(orig)
                out.append(m)
                continue
            try:
                r = subprocess.run(
                    [sys.executable, '-m', 'pytest', '-q', '-p', 'no:cacheprovider', '--timeout=120',
                     '--continue-on-collection-errors', '-rfE'],
                    cwd=d, env=dict(os.environ, PYTHONPATH=d), capture_output=True, text=True,
                    timeout=600)
                tail = r.stdout.strip().splitlines()[-1] if r.stdout.strip() else ''
                fails = sorted(l for l in r.stdout.splitlines() if l.startswith(('FAILED', 'ERROR')))
                m['tests'] = tail
                m['fails'] = fails
            except subprocess.TimeoutExpired:
                m['tests'] = 'timeout'
            open(os.path.join(d, m['file']), 'wb').write(orig)
            for junk in ('bdd', 'bdd.dot', 'bdd.ext'):
                try:
                    os.remove(os.path.join(d, junk))
                except OSError:
                    pass
            out.append(m)
    finally:
        shutil.rmtree(d, ignore_errors=True)
    return out


def tests(inp, out, jobs):
    import multiprocessing as mp
    ms = json.load(open(inp))
    # the reference outcome
    d = scratch()
    r = subprocess.run([sys.executable, '-m', 'pytest', '-q', '-p', 'no:cacheprovider',
                        '--timeout=120', '--continue-on-collection-errors', '-rfE'],
                       cwd=d, env=dict(os.environ, PYTHONPATH=d), capture_output=True, text=True)
    shutil.rmtree(d, ignore_errors=True)
    ref = sorted(l for l in r.stdout.splitlines() if l.startswith(('FAILED', 'ERROR')))
    print('reference:', r.stdout.strip().splitlines()[-1])
    chunks = [ms[i::jobs * 4] for i in range(jobs * 4)]
    with mp.Pool(jobs) as pool:
        res = pool.map(_tests_worker, [(c,) for c in chunks])
    keep = []
    n = 0
    for ch in res:
        for m in ch:
            n += 1
            # without -x the full list is needed; with -x: same failures up to the first new one
            if m.get('tests') not in ('syntax', 'timeout') and set(m.get('fails', [])) <= set(ref) \
                    and 'passed' in m.get('tests', '') and ' 105 passed' in (' ' + m['tests']):
                keep.append(m)
    keep.sort(key=lambda m: m['id'])
    json.dump(keep, open(out, 'w'), indent=0)
    print(n, 'tested;', len(keep), 'pass the baseline tests unchanged')


# function -> checks
MAP_BDD = [
    (('find_or_add',), ['C02', 'C01', 'C06']),
    (('ite', '_ite', 'apply', '_top_cofactor', 'var', 'cube', '_add_int'), ['C01', 'C02']),
    (('quantify', '_quantify', 'exist', 'forall', '_map_to_level'), ['C03']),
    (('let', 'cofactor', '_cofactor', 'compose', '_compose', '_vector_compose', 'rename',
      '_rename', '_assert_valid_rename', '_all_adjacent', '_assert_valid_ordering'), ['C04', 'C13']),
    (('add_expr', 'to_expr', '_to_expr'), ['C05']),
    (('incref', 'decref', 'collect_garbage', '_next_free_int', 'ref'), ['C06', 'C08']),
    (('swap', '_swap_cofactor', '_low_high_nodes', 'reorder', '_sort_to_order', '_reorder_var',
      '_shift', '_levels', '_apply_reordering', 'reorder_to_pairs', '_reorder_var_pairs',
      '_jump_to_pairs', '_move_to_pair', '_assert_isomorphic_orders', '_assert_valid_order',
      '_swap_pairs', '_var_with_most_nodes', '_sift'), ['C07', 'C06']),
    (('_try_to_reorder', '_request_reordering', 'configure', '__enter__', '__exit__',
      '_wrapper', 'wrapper', '_reordering_is_on'), ['C09', 'C17']),
    (('count', '_sat_len', 'pick_iter', '_sat_iter', '_enumerate_minterms', 'support',
      '_support', 'is_essential', 'pick', '_assert_int'), ['C10']),
    (('copy_bdd', '_copy_bdd', 'copy', '_flip'), ['C11', 'C04']),
    (('dump', '_dump_bdd', 'load', '_load_pickle', '_load', '_dump_manager', '_load_manager',
      '_dump_figure'), ['C12']),
    (('image', 'preimage', '_image'), ['C13']),
    (('add_var', '_check_var', '_next_free_level', 'declare', 'undeclare_vars', 'var_at_level',
      'level_of_var', 'var_levels', '_init_terminal', '__init__', '__copy__'), ['C14', 'C02']),
    (('descendants', '_descendants', 'to_nx', '_to_dot', 'to_pydot', '__len__', 'succ',
      '_to_pydot', '__contains__', '__iter__', 'levels'), ['C18']),
]
MAP_FILE = {
    'dd/mdd.py': ['C15'], 'dd/dddmp.py': ['C16'], 'dd/_parser.py': ['C05', 'C17'],
    'dd/_copy.py': ['C11', 'C12', 'C17'], 'dd/_utils.py': ['C18', 'C01', 'C12'],
    'dd/_abc.py': ['C10', 'C01'],
}
MAP_AUTOREF = [
    (('let', 'cofactor', 'compose', 'rename'), ['C04']),
    (('quantify', 'exist', 'forall'), ['C03']),
    (('copy', 'copy_bdd'), ['C11']),
    (('dump', 'load', '_load_pickle'), ['C12']),
    (('count', 'pick_iter', 'support', 'pick'), ['C10']),
    (('to_expr', 'add_expr'), ['C05']),
    (('level', 'var', 'low', 'high', 'negated', 'dag_size', '__len__', 'succ', 'descendants',
      'ref'), ['C18']),
    (('image', 'preimage'), ['C13']),
    (('declare', 'add_var', 'undeclare_vars', 'var_at_level', 'level_of_var', 'var_levels'), ['C14']),
    (('reorder', 'reorder_to_pairs', 'swap', 'configure'), ['C07', 'C09']),
    (('__eq__', '__ne__', '__le__', '__lt__', '__invert__', '__and__', '__or__', '__xor__',
      'implies', 'equiv', 'apply', 'ite', '_apply', '__hash__'), ['C01', 'C02']),
]


def _guards_refusal(m):
    """The mutated line belongs to a condition that guards `raise ValueError/KeyError/...`
    (a refusal that C17 and C14 judge)."""
    try:
        b = open(os.path.join(REPO, m['file']), 'rb').read()
    except OSError:
        return False
    tail = b[m['end']:m['end'] + 400].decode('utf8', 'replace').split('\n')[:6]
    return any(l.strip().startswith('raise ') and 'AssertionError' not in l for l in tail)


def checks_for(m):
    cs = list(_checks_for(m))
    if m['kind'] in ('cmp', 'boolop', 'drop-not', 'const') and _guards_refusal(m):
        for c in ('C17', 'C14'):
            if c not in cs:
                cs.append(c)
    return cs


def _checks_for(m):
    fn = m['func'].split('.')[-1]
    if m['file'] == 'dd/bdd.py':
        if fn == 'apply':
            return ['C01', 'C03', 'C02']
        for names, cs in MAP_BDD:
            if fn in names:
                return cs
        return ['C01', 'C06']
    if m['file'] == 'dd/autoref.py':
        for names, cs in MAP_AUTOREF:
            if fn in names:
                return ['C08'] + cs
        return ['C08', 'C01']
    return MAP_FILE.get(m['file'], ['C01'])


def run(inp, out, stride, offset):
    ms = json.load(open(inp))[offset::stride]
    done = {}
    if os.path.exists(out):
        for m in json.load(open(out)):
            done[m['id']] = m
    res = list(done.values())
    verif = os.path.dirname(os.path.dirname(os.path.abspath(__file__)))
    for m in ms:
        if m['id'] in done:
            continue
        d = scratch()
        try:
            apply_mutant(m, d)
            m['checks'] = {}
            for c in checks_for(m):
                r = subprocess.run(['./check', c, '--tier', 'quick'], cwd=verif,
                                   env=dict(os.environ, DD_REPO=d, VERIF_EVIDENCE_DIR=os.path.join(d, '.evidence')),
                                   capture_output=True, text=True)
                what = [l.strip() for l in r.stdout.splitlines() if l.strip().startswith('what:')]
                m['checks'][c] = dict(exit=r.returncode, what=what[:2])
                if r.returncode == 1:
                    break
                if r.returncode not in (0, 1):
                    m['checks'][c]['stderr'] = (r.stdout + r.stderr)[-600:]
            m['killed'] = any(v['exit'] == 1 for v in m['checks'].values())
        finally:
            shutil.rmtree(d, ignore_errors=True)
        subprocess.call('find %s/replays -name "*.json" -delete' % verif, shell=True)
        res.append(m)
        json.dump(res, open(out, 'w'), indent=0)
        print('%s %5d %s:%d %s [%s -> %s] %s' % (
            'KILLED  ' if m['killed'] else 'SURVIVED', m['id'], m['file'], m['line'], m['func'],
            m['old'][:30].replace('\n', ' '), m['new'][:30].replace('\n', ' '),
            {c: v['exit'] for c, v in m['checks'].items()}), flush=True)


if __name__ == '__main__':
    cmd = sys.argv[1]
    if cmd == 'gen':
        gen(sys.argv[2], sys.argv[3:] or FILES)
    elif cmd == 'tests':
        j = int(sys.argv[sys.argv.index('-j') + 1]) if '-j' in sys.argv else 8
        tests(sys.argv[2], sys.argv[3], j)
    elif cmd == 'run':
        st = int(sys.argv[sys.argv.index('--stride') + 1]) if '--stride' in sys.argv else 1
        of = int(sys.argv[sys.argv.index('--offset') + 1]) if '--offset' in sys.argv else 0
        run(sys.argv[2], sys.argv[3], st, of)
