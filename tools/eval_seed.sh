#!/bin/sh
# usage: tools/eval_seed.sh <dir with patch.diff and demo.py> <tier> <check ids...>
# Confirms, on a scratch copy of /repo's tracked tree (outside /repo and /verif):
#   baseline tests with the change, demo without and with the change,
# then runs the named checks against the changed copy. Removes the copy.
dir=$(readlink -f "$1"); tier=$2; shift 2
d=$(mktemp -d /tmp/ddseed.XXXXXX)
trap 'rm -rf "$d"' EXIT INT TERM
(cd /repo && git ls-files -z | xargs -0 cp --parents -t "$d") || exit 3
echo "--- demo on pristine copy:"
(cd /tmp && PYTHONPATH="$d" timeout 600 /venv/bin/python "$dir/demo.py" >/dev/null 2>&1; echo "    exit=$?")
(cd "$d" && git init -q . 2>/dev/null; git apply --whitespace=nowarn "$dir/patch.diff" 2>/dev/null || patch -p1 -s < "$dir/patch.diff") || { echo "PATCH DOES NOT APPLY"; exit 3; }
rm -rf "$d/.git"
echo "--- baseline tests with the change:"
(cd "$d" && PYTHONPATH="$d" /venv/bin/python -m pytest -q -p no:cacheprovider --timeout=900 --continue-on-collection-errors 2>&1 | tail -1)
echo "--- demo with the change:"
(cd /tmp && PYTHONPATH="$d" timeout 600 /venv/bin/python "$dir/demo.py" >/dev/null 2>&1; echo "    exit=$?")
cd "$(dirname "$0")/.." || exit 2
for p in "$@"; do
  out=$(DD_REPO="$d" VERIF_EVIDENCE_DIR="$d/.evidence" ./check $p --tier $tier 2>/dev/null); c=$?
  echo "--- $p ($tier) exit=$c"
  echo "$out" | grep -E "what:|^$p " | cut -c1-230 | sort | uniq -c | sort -rn | head -4
done
