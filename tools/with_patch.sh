#!/bin/sh
# usage: tools/with_patch.sh <patch.diff> [--tests] -- <command...>
# Copies /repo's tracked working tree to a scratch dir outside /repo and /verif,
# applies the patch, optionally runs the 105-test baseline there, then runs the
# command with DD_REPO pointing at the copy, and removes the copy.
patch=$(readlink -f "$1"); shift
tests=0
if [ "$1" = "--tests" ]; then tests=1; shift; fi
[ "$1" = "--" ] && shift
d=$(mktemp -d /tmp/ddscratch.XXXXXX)
trap 'rm -rf "$d"' EXIT INT TERM
(cd /repo && git ls-files -z | xargs -0 cp --parents -t "$d") || exit 3
(cd "$d" && patch -p1 -s < "$patch") || { echo "patch failed"; exit 3; }
if [ $tests = 1 ]; then
  (cd "$d" && PYTHONPATH="$d" /venv/bin/python -m pytest -q -p no:cacheprovider --timeout=900 --continue-on-collection-errors 2>&1 | tail -1)
fi
DD_REPO="$d" VERIF_EVIDENCE_DIR="$d/.evidence" "$@"
rc=$?
exit $rc
