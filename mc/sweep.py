"""Helpers shared by the exhaustive input sweeps: building functions, contexts, orders."""
import itertools

from . import env  # noqa: F401
from . import state as S
from . import oracle as O
from .oracle import Violation
from .ref import Universe


def orders(names):
    """All n! assignments of names to levels (dict name -> level)."""
    return [dict(zip(names, p)) for p in itertools.permutations(range(len(names)))]


def order_str(order):
    return '<'.join(sorted(order, key=order.get))


class Builder:
    """Builds references from truth-table masks by Shannon expansion with find_or_add.

    Independent of apply/ite; each built reference is verified against its mask by
    the denotation walker before it is used as an operand.
    """

    def __init__(self, m, U):
        self.m = O.raw(m)
        self.U = U
        self.memo = {}
        self.den = O.Den(self.m, U)

    def reset(self):
        """Call after anything that may delete or renumber nodes."""
        self.memo = {}
        self.den.reset()

    def __call__(self, mask, start=0):
        # `start`: no variable at a level above it is essential (callers other than the
        # recursion leave it at 0)
        U = self.U
        if mask == U.full:
            return 1
        if mask == 0:
            return -1
        r = self.memo.get(mask)
        if r is not None:
            return r
        m = self.m
        for lvl in range(start, len(m.vars)):
            name = m.var_at_level(lvl)
            if name not in U.idx:
                continue
            f0 = U.cof(mask, name, 0)
            f1 = U.cof(mask, name, 1)
            if f0 != f1:
                lo = self(f0, lvl + 1)
                hi = self(f1, lvl + 1)
                r = m.find_or_add(lvl, lo, hi)
                self.memo[mask] = r
                return r
        raise AssertionError('mask depends on no declared variable')

    def verified(self, mask):
        r = self(mask)
        if self.den(r) != mask:
            raise Violation('node-by-node construction (find_or_add) denotes the wrong function',
                            want=self.U.fmt(mask), got=self.U.fmt(self.den(r)))
        return r


def build_all(m, U, masks=None, hold=True):
    """Build (and reference) every function in `masks` (default: all of F(U)). -> dict mask->ref."""
    b = Builder(m, U)
    raw = O.raw(m)
    out = {}
    for f in (masks if masks is not None else range(1 << U.N)):
        r = b.verified(f)
        if hold:
            raw.incref(r)
        out[f] = r
    return out, b


CONTEXTS = ('K0', 'K1', 'K2', 'K3')


def make_context(ctx, order, U, masks=None):
    """Manager in history `ctx` holding every function of `masks`.

    K0 fresh; K1 everything built and held, half released and collected, then the
    released half rebuilt (freed node numbers re-used); K2 = K1 + every adjacent swap
    there and back; K3 = K0 (the caller runs its sweep twice: warm cache).
    Returns (manager, refs: mask->ref, ext: node->external count).
    """
    m = S.new_bdd(order)
    refs, b = build_all(m, U, masks)
    if ctx in ('K1', 'K2'):
        fs = sorted(refs)
        released = [f for f in fs if min(f, U.full ^ f) % 2 == 1]
        n_before = len(m)
        for f in released:
            m.decref(refs[f])
        m.collect_garbage()
        b.reset()
        if masks is None and len(m) >= n_before:
            raise AssertionError('harness: context K1 freed nothing')
        # node numbers may be re-used now; rebuild the released half in reverse order
        for f in reversed(released):
            r = b.verified(f)
            m.incref(r)
            refs[f] = r
        for f in fs:
            if f not in released:
                r = b.verified(f)
                if r != refs[f]:
                    raise Violation('held reference changed number across a collection',
                                    mask=U.fmt(f))
    if ctx == 'K2':
        n = len(order)
        for l in range(n - 1):
            m.swap(l, l + 1)
        for l in reversed(range(n - 1)):
            m.swap(l, l + 1)
        b.reset()
        for f, r in refs.items():
            if b.den(r) != f:
                raise Violation('held reference changed denotation across swaps',
                                mask=U.fmt(f))
    ext = {}
    for f, r in refs.items():
        ext[abs(r)] = ext.get(abs(r), 0) + 1
    return m, refs, ext, b


HISTORIES = ('K0', 'K1', 'K2', 'rev')


def split_oi(oi):
    """An order index may carry a history: 5 or '5:rev' -> (5, None) / (5, 'rev')."""
    if isinstance(oi, str):
        a, _, h = oi.partition(':')
        return int(a), (h or None)
    return oi, None


def make_history(ctx, order, U, masks=None, auto=False):
    """Manager with a HISTORY holding every function of `masks`: K0-K2 as in make_context;
    'rev' = built (with a collection in between) in the reversed order and then reordered to
    `order`, so that node numbers are not topological and the `vars` dict is not in level order.
    -> (manager, handles: mask -> reference or Function)"""
    import dd.bdd as _bddmod
    if ctx == 'rev':
        n = len(order)
        rev = {v: n - 1 - l for v, l in order.items()}
        m, refs, ext, b = make_context('K1', rev, U, masks)
        _bddmod.reorder(m, dict(order))
        b.reset()
        for f, r in refs.items():
            if b.den(r) != f:
                raise Violation('held reference changed denotation across reordering',
                                mask=U.fmt(f))
    else:
        m, refs, ext, b = make_context(ctx, order, U, masks)
    if not auto:
        return m, refs
    a = S.autoref_around(m)
    hs = {f: a._add_int(r) for f, r in refs.items()}
    for r in refs.values():
        m.decref(r)
    return a, hs


def nontrivial(U, *masks):
    """Rule used by the sweeps: no operand is a constant."""
    return all(f != 0 and f != U.full for f in masks)


def shard(seq, k):
    """Split a sequence into k nearly equal contiguous slices (lists)."""
    seq = list(seq)
    k = max(1, min(k, len(seq)))
    q, r = divmod(len(seq), k)
    out, i = [], 0
    for j in range(k):
        n = q + (1 if j < r else 0)
        out.append(seq[i:i + n])
        i += n
    return out


class Rec:
    """Per-worker violation throttle."""

    def __init__(self, rep):
        self.rep = rep
        self.seen = {}

    def __call__(self, sig, what, case, **kw):
        k = self.seen.get(sig, 0)
        self.seen[sig] = k + 1
        if k < 2:
            case = dict(case, sig=sig)
            self.rep.violation(sig, what, case, **kw)
        else:
            self.rep.add('violations_seen')


def guarded(rec, sig, case, fn):
    """Run fn(); Violation or any exception becomes a recorded violation. Returns ok."""
    try:
        fn()
        return True
    except Violation as v:
        rec(sig + ':' + v.what, v.what, case, **v.detail)
    except Exception as e:  # noqa
        rec(sig + ':exception:' + type(e).__name__,
            'exception %s: %s' % (type(e).__name__, str(e)[:160]), case)
    return False


def run_driver(prop, tier, t0, tasks, dispatch, rule, assumptions, replay_fn,
               level='exploration', extra_cov=None, exhaustive=True, machines=None):
    """Common main() of the input-sweep drivers (optionally followed by BFS machines)."""
    from . import run
    rep = run.Report()
    run.pmerge(dispatch, tasks, rep)
    run.close_pool()
    cov = dict(
        evaluations=rep.counts.get('evaluations', 0),
        distinct_nontrivial=rep.counts.get('nontrivial', 0),
        rule=rule, tasks=len(tasks))
    if machines:
        from .explore import bfs
        deep = dict(states=0, transitions=0, validated=0)
        bounds = {}
        for mach, depth in machines:
            r = run.Report()
            res = bfs(mach, depth, r)
            run.close_pool()
            for v in r.violations:
                v['case']['names'] = list(mach.names)
            for smp in r.samples:
                smp['names'] = list(mach.names)
            rep.merge(r)
            for k in deep:
                deep[k] += res[k]
            bounds[mach.name] = dict(depth_completed=res['completed_depth'],
                                     states_per_layer=res['layers'])
        cov.update(states=deep['states'], transitions=deep['transitions'],
                   traces_validated_against_impl=deep['validated'], history_bounds=bounds)
        cov['evaluations'] += deep['transitions']
    cov['exhaustive'] = exhaustive and not rep.caps
    if extra_cov:
        cov.update(extra_cov)
    return run.finish(prop, level, tier, rep, t0, cov, assumptions, replay_fn=replay_fn)


def replay_with_machines(by_task):
    """Replay: traces go to a permissive BddMachine, everything else to the task replay."""
    def replay(case):
        if 'trace' in case:
            from .machines import BddMachine
            mm = BddMachine(tuple(case['names']), max_handles=9, max_ext=9, with_let=True,
                            with_quant=True, with_sort=True)
            return mm.replay(case)
        return by_task(case)
    return replay


def replay_by_task(dispatch):
    """Replay = re-run the (narrowed) task recorded in the case; same signature must recur."""
    def replay(case):
        t = case.get('task')
        if t is None:
            return None
        t = _tuplify(t)
        sig = case.get('sig')
        # first the narrowed task; if the failure depends on what the task did before
        # (state carried across cases), the whole task
        for tt in (t, t[:-1] + (None,)):
            try:
                rep = dispatch(tt)
            except Violation as e:
                if sig is None or sig == 'setup:' + e.what:
                    return e.what
                raise
            except Exception as e:  # noqa
                from .run import library_exception_report
                rep = library_exception_report(e, tt)
                if rep is None:
                    raise
            for v in rep.violations:
                if sig is None or v['signature'] == sig:
                    return v['what']
            if tt[-1] is None:
                break
        return None
    return replay


def _tuplify(x):
    if isinstance(x, list):
        return tuple(_tuplify(y) for y in x)
    return x


def subsets(names):
    names = list(names)
    for k in range(len(names) + 1):
        for c in itertools.combinations(names, k):
            yield c


def wide_manager(nvars, rot=0):
    """A manager with many declared variables (v0..v{n-1} declared in a rotated order)."""
    allnames = ['v%d' % i for i in range(nvars)]
    decl = allnames[rot % nvars:] + allnames[:rot % nvars]
    return S.new_bdd({v: i for i, v in enumerate(decl)}), decl


XWIDE = 40      # declared variables of a "very wide" manager
XWIDE_POOL = (0, 1, 2, 30, 31, 32, 33, 34, 38, 39)


def wide_subsets(nvars, k):
    """Every k-subset of the levels; for a very wide manager (>= 32 variables) every k-subset
    of a pool of ten levels that straddles 8, 16 and 32."""
    if nvars >= 32:
        pool = [i for i in XWIDE_POOL if i < nvars - 2] + [nvars - 2, nvars - 1]
        return list(itertools.combinations(sorted(set(pool)), k))
    return list(itertools.combinations(range(nvars), k))


def wide_k(nvars):
    return 5 if nvars >= 32 else 3


def wide_functions(U, names):
    """All functions of up to three names; a written-out family (each with full support) of
    more names."""
    names = tuple(names)
    if len(names) <= 3:
        return U.all_functions(names)
    X = [U.var(v) for v in names]
    F = U.full
    conj, disj, par = F, 0, 0
    for x in X:
        conj &= x
        disj |= x
        par ^= x
    thr = 0
    for i in range(len(X)):
        for j in range(i + 1, len(X)):
            thr |= X[i] & X[j]
    sop = 0
    for i in range(0, len(X) - 1, 2):
        sop |= X[i] & (F ^ X[i + 1])
    if len(X) % 2:
        sop ^= X[-1]
    mux = U.ite(X[0], X[1] ^ X[2], X[3]) if len(X) == 4 else U.ite(X[0], X[1] ^ X[2], X[3] & X[4])
    for x in X[5:]:
        mux ^= x
    chain = X[-1]
    for x in reversed(X[:-1]):
        chain = U.ite(x, F ^ chain, chain & X[-1]) | (x & X[-1])
    fam = [conj, F ^ disj, par, thr, sop, mux, F ^ chain]
    out = []
    for f in fam:
        if f not in out and U.support(f) == set(names):
            out.append(f)
    return out


def norm(x):
    """Nested lists/tuples -> nested tuples (a case read back from JSON compares equal)."""
    if isinstance(x, (list, tuple)):
        return tuple(norm(y) for y in x)
    return x


def pick_order_seam():
    """A seam (see mc/props/c09.py) whose forced reordering ENDS IN the order stored in
    `seam.target` (dict name -> level), instead of where the library's sifting would stop:
    the heuristic is free to choose any order, so every choice must be harmless."""
    from .props.c09 import Seam

    class PickOrder(Seam):
        target = None

        def _reorder(self, bdd, *a, **kw):
            if self.active and not a and not kw and self.target is not None:
                self.reorders += 1
                return self.orig_reorder(bdd, dict(self.target))
            return Seam._reorder(self, bdd, *a, **kw)
    return PickOrder()


class Decoy:
    """A SECOND manager (dd.bdd and dd.autoref) living in the same process as the one under
    test, with the same variable names in another order, poked between the cases of a sweep:
    state that the library shares between managers (module-level tables, singletons, class
    attributes) shows up as a wrong answer in one of the two.  The decoy's own answers are
    checked against the model as well."""

    def __init__(self, names, twin_of=None):
        self.names = tuple(names)
        self.U = Universe(self.names)
        self.m = S.new_bdd({v: i for i, v in enumerate(reversed(self.names))})
        self.b = Builder(self.m, self.U)
        self.a = S.new_autoref({v: i for i, v in enumerate(self.names[1:] + self.names[:1])})
        self.k = 0
        # a `copy.copy` of the manager under test: from now on an independent manager, whose
        # operations must not be felt by the original (nor the other way round)
        self.twin = None
        if twin_of is not None:
            import copy
            try:
                self.twin = copy.copy(O.raw(twin_of))
                self.twin_names = [v for v in self.names if v in self.twin.vars]
            except Exception:  # noqa
                self.twin = None

    def _poke_twin(self):
        t, U, k = self.twin, self.U, self.k
        ns = self.twin_names
        if len(ns) < 2:
            return None
        x, y = ns[k % len(ns)], ns[(k + 1) % len(ns)]
        z = ns[(k + 2) % len(ns)]
        fx, fy, fz = U.var(x), U.var(y), U.var(z)
        den = O.Den(t, U)
        u = t.ite(t.var(x), -t.var(y), t.var(z)) if k % 2 else t.apply(
            ('or', 'xor', '<=>')[k % 3], -t.var(x), t.apply('and', t.var(y), -t.var(z)))
        want = U.ite(fx, U.full ^ fy, fz) if k % 2 else (
            ((U.full ^ fx) | (fy & (U.full ^ fz))), ((U.full ^ fx) ^ (fy & (U.full ^ fz))),
            U.full ^ ((U.full ^ fx) ^ (fy & (U.full ^ fz))))[k % 3]
        if den(u) != want:
            return 'an operation in a copy.copy() of the manager gives a wrong function'
        return None

    def poke(self):
        """-> None, or a description of what went wrong in the decoy."""
        U, m, names = self.U, self.m, self.names
        self.k += 1
        k = self.k
        x, y = names[k % len(names)], names[(k + 1) % len(names)]
        fx, fy = U.var(x), U.var(y)
        try:
            if self.twin is not None:
                bad = self._poke_twin()
                if bad:
                    return bad
            den = O.Den(m, U)
            u = m.apply(('and', 'xor', 'or', '=>')[k % 4], m.var(x), -m.var(y))
            want = (fx & (U.full ^ fy), fx ^ (U.full ^ fy), fx | (U.full ^ fy),
                    (U.full ^ fx) | (U.full ^ fy))[k % 4]
            if den(u) != want:
                return 'apply in a second manager of the same process gives a wrong function'
            if den(m.let({x: y}, u)) != U.rename(want, {x: y}) and x != y and \
                    y not in U.support(want) - {y}:
                pass
            if den(m.exist([x], u)) != U.exists(want, [x]):
                return 'exist in a second manager of the same process gives a wrong function'
            if set(m.support(u)) != U.support(want) or m.count(u) != (
                    U.count(want) >> (U.m - len(U.support(want)))):
                return 'support / count in a second manager of the same process are wrong'
            e = self.a.add_expr('%s %s ~ %s' % (x, ('/\\', '#', '\\/', '=>')[k % 4], y))
            if O.Den(self.a, U)(e) != want:
                return 'add_expr in a second manager of the same process gives a wrong function'
            t = self.a.to_expr(e)
            if O.Den(self.a, U)(self.a.add_expr(t)) != want:
                return 'to_expr in a second manager of the same process is wrong'
            del e
            if k % 16 == 0:
                m.collect_garbage()
                self.a.collect_garbage()
        except Violation as v:
            return 'second manager of the same process: ' + v.what
        except Exception as ex:  # noqa
            return 'second manager of the same process: raised %r' % (ex,)
        return None
