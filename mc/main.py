"""Entry point: python -m mc.main <PROP> [--tier quick|thorough] [--replay FILE]."""
import argparse
import importlib
import json
import os
import sys
import time
import traceback


def main(argv=None):
    ap = argparse.ArgumentParser()
    ap.add_argument('prop')
    ap.add_argument('--tier', default=os.environ.get('VERIF_TIER') or 'quick',
                    choices=['quick', 'thorough'])
    ap.add_argument('--replay')
    ap.add_argument('--validate', action='store_true',
                    help='validate the written evidence file against the official schema')
    args = ap.parse_args(argv)
    prop = args.prop.upper()
    if args.replay:
        args.replay = os.path.abspath(args.replay)
    from . import env, run
    mod = importlib.import_module('mc.props.' + prop.lower())
    env.scratch_dir()
    if args.replay:
        with open(args.replay) as f:
            body = json.load(f)
        res = mod.replay(body['case'])
        if res:
            print(f'VIOLATION property={prop} replay={os.path.abspath(args.replay)}')
            print('  what:', res)
            return 1
        print(f'{prop}: replay of {args.replay} shows no violation on this tree')
        return 0
    t0 = time.time()
    # CPU-time limit per task (and per replay): far above what any task of the tier needs on
    # the unchanged tree (quick: < 100 s, thorough: < 1 000 s)
    run.set_task_limit(900 if args.tier == 'quick' else 7200)
    try:
        code = mod.main(args.tier, t0)
    except run.HarnessError as e:
        print(f'HARNESS-ERROR property={prop}: {e}', file=sys.stderr)
        return 2
    except Exception:  # noqa
        print(f'HARNESS-ERROR property={prop}:\n{traceback.format_exc()}', file=sys.stderr)
        return 2
    finally:
        run.close_pool()
    if args.validate:
        r = run.schema_validate(os.path.join(
            os.environ.get('VERIF_EVIDENCE_DIR') or os.path.join(env.VERIF_DIR, 'evidence'),
            f'{prop}.json'))
        if r is not None and not r[0]:
            print('HARNESS-ERROR evidence does not validate:', r[1], file=sys.stderr)
            return 2
    return code


if __name__ == '__main__':
    sys.exit(main())
