"""Models extracted from source for C19.

Two front-ends lower source to one small IR:
  * Cython's own parser (Cython.Compiler) for the .pyx wrappers, which cannot be
    built or imported offline;
  * Python's `ast` for the executable siblings dd/bdd.py and dd/mdd.py.
One interpreter executes the IR of a method `apply` concretely for a given operator
symbol and operand valuation over truth tables, with a table of primitive meanings
for the C library entry points (the trusted base, printed in the evidence).
A second analysis enumerates all paths through every function that touches the
reference-counting primitives and tracks, per scalar local, references taken minus
references released.
"""
import ast
import os
import re

from Cython.Compiler.TreeFragment import parse_from_strings
from Cython.Compiler import Nodes, ExprNodes
from Cython.Compiler.Visitor import TreeVisitor


# ====================================================================== IR lowering

class Unsupported(Exception):
    pass


def _cy_expr(e):
    E = ExprNodes
    t = type(e).__name__
    if isinstance(e, E.NameNode):
        return ('name', e.name)
    if isinstance(e, E.AttributeNode):
        return ('attr', _cy_expr(e.obj), e.attribute)
    if isinstance(e, E.SimpleCallNode):
        return ('call', _cy_expr(e.function), [_cy_expr(a) for a in e.args], {})
    if isinstance(e, E.GeneralCallNode):
        args = [_cy_expr(a) for a in e.positional_args.args]
        kw = {}
        if e.keyword_args is not None:
            for k, v in e.keyword_args.key_value_pairs:
                kw[k.value] = _cy_expr(v)
        return ('call', _cy_expr(e.function), args, kw)
    if isinstance(e, (E.UnicodeNode, E.StringNode, E.BytesNode)):
        v = e.value
        if isinstance(v, bytes):
            v = v.decode('latin-1')
        return ('str', str(v))
    if isinstance(e, E.IntNode):
        return ('int', int(e.value))
    if isinstance(e, E.NoneNode):
        return ('none',)
    if isinstance(e, E.NullNode):
        return ('null',)
    if isinstance(e, E.BoolNode):
        return ('int', 1 if e.value else 0)
    if isinstance(e, E.TupleNode) or isinstance(e, E.ListNode):
        return ('tuple', [_cy_expr(a) for a in e.args])
    if isinstance(e, E.PrimaryCmpNode):
        if e.cascade is not None:
            raise Unsupported('cascaded comparison')
        return ('cmp', e.operator, _cy_expr(e.operand1), _cy_expr(e.operand2))
    if isinstance(e, E.BoolBinopNode):
        return ('bool', e.operator, [_cy_expr(e.operand1), _cy_expr(e.operand2)])
    if isinstance(e, E.NotNode):
        return ('not', _cy_expr(e.operand))
    if isinstance(e, E.UnaryMinusNode):
        return ('neg', _cy_expr(e.operand))
    if t in ('IntBinopNode', 'NumBinopNode', 'AddNode', 'SubNode') and getattr(
            e, 'operator', None) in ('|', '&', '^'):
        return ('binop', e.operator, _cy_expr(e.operand1), _cy_expr(e.operand2))
    if t == 'TildeNode':
        return ('invert', _cy_expr(e.operand))
    if t == 'JoinedStrNode' or t == 'FormattedValueNode':
        return ('str', '<f-string>')
    if isinstance(e, E.TypecastNode):
        return _cy_expr(e.operand)
    if t == 'CoerceToPyTypeNode':
        return _cy_expr(e.arg)
    raise Unsupported('expression ' + t)


def _cy_stats(node):
    N = Nodes
    if node is None:
        return []
    if isinstance(node, N.StatListNode):
        out = []
        for s in node.stats:
            out += _cy_stats(s)
        return out
    t = type(node).__name__
    if isinstance(node, N.IfStatNode):
        clauses = [(_cy_expr_safe(c.condition), _cy_stats(c.body)) for c in node.if_clauses]
        return [('if', clauses, _cy_stats(node.else_clause))]
    if isinstance(node, N.SingleAssignmentNode):
        if isinstance(node.lhs, ExprNodes.NameNode):
            return [('assign', node.lhs.name, _cy_expr_safe(node.rhs))]
        return [('opaque', t)]
    if isinstance(node, N.ReturnStatNode):
        return [('return', _cy_expr_safe(node.value) if node.value is not None else ('none',))]
    if isinstance(node, N.RaiseStatNode):
        exc = None
        if node.exc_type is not None:
            try:
                x = _cy_expr(node.exc_type)
                exc = x[1][1] if x[0] == 'call' and x[1][0] == 'name' else (
                    x[1] if x[0] == 'name' else None)
            except Unsupported:
                pass
        return [('raise', exc)]
    if isinstance(node, N.ExprStatNode):
        return [('expr', _cy_expr_safe(node.expr))]
    if isinstance(node, (N.PassStatNode, N.CVarDefNode)):
        return []
    if t in ('ExprStatNode',):
        return []
    return [('opaque', t)]


def _cy_expr_safe(e):
    try:
        return _cy_expr(e)
    except Unsupported as x:
        return ('opaque', str(x))


def _py_expr(e):
    if isinstance(e, ast.Name):
        return ('name', e.id)
    if isinstance(e, ast.Attribute):
        return ('attr', _py_expr(e.value), e.attr)
    if isinstance(e, ast.Call):
        return ('call', _py_expr(e.func), [_py_expr(a) for a in e.args],
                {k.arg: _py_expr(k.value) for k in e.keywords})
    if isinstance(e, ast.Constant):
        if isinstance(e.value, str):
            return ('str', e.value)
        if e.value is None:
            return ('none',)
        if isinstance(e.value, bool):
            return ('int', int(e.value))
        if isinstance(e.value, int):
            return ('int', e.value)
    if isinstance(e, ast.Tuple) or isinstance(e, ast.List):
        return ('tuple', [_py_expr(a) for a in e.elts])
    if isinstance(e, ast.Compare) and len(e.ops) == 1:
        op = {ast.In: 'in', ast.NotIn: 'not_in', ast.Eq: '==', ast.NotEq: '!=', ast.Is: 'is',
              ast.IsNot: 'is_not'}.get(type(e.ops[0]))
        if op:
            return ('cmp', op, _py_expr(e.left), _py_expr(e.comparators[0]))
    if isinstance(e, ast.BoolOp):
        return ('bool', 'and' if isinstance(e.op, ast.And) else 'or',
                [_py_expr(v) for v in e.values])
    if isinstance(e, ast.UnaryOp):
        if isinstance(e.op, ast.Not):
            return ('not', _py_expr(e.operand))
        if isinstance(e.op, ast.USub):
            return ('neg', _py_expr(e.operand))
    if isinstance(e, ast.JoinedStr):
        return ('str', '<f-string>')
    return ('opaque', type(e).__name__)


def _py_stats(body):
    out = []
    for s in body:
        if isinstance(s, ast.If):
            clauses = []
            cur = s
            while True:
                clauses.append((_py_expr(cur.test), _py_stats(cur.body)))
                if len(cur.orelse) == 1 and isinstance(cur.orelse[0], ast.If):
                    cur = cur.orelse[0]
                    continue
                out.append(('if', clauses, _py_stats(cur.orelse)))
                break
        elif isinstance(s, ast.Assign) and len(s.targets) == 1 and isinstance(
                s.targets[0], ast.Name):
            out.append(('assign', s.targets[0].id, _py_expr(s.value)))
        elif isinstance(s, ast.Return):
            out.append(('return', _py_expr(s.value) if s.value is not None else ('none',)))
        elif isinstance(s, ast.Raise):
            exc = None
            if isinstance(s.exc, ast.Call) and isinstance(s.exc.func, ast.Name):
                exc = s.exc.func.id
            out.append(('raise', exc))
        elif isinstance(s, ast.Expr):
            if isinstance(s.value, ast.Constant):
                continue
            out.append(('expr', _py_expr(s.value)))
        elif isinstance(s, (ast.Pass, ast.AnnAssign)):
            continue
        else:
            out.append(('opaque', type(s).__name__))
    return out


# ====================================================================== locating functions

def cy_parse(path):
    text = open(path, encoding='utf8').read()
    return parse_from_strings('dd.' + os.path.basename(path)[:-4], text), text


def cy_functions(tree):
    """-> list of (class name or None, function name, node)."""
    out = []

    class V(TreeVisitor):
        def __init__(s):
            super().__init__()
            s.cls = [None]

        def visit_Node(s, n):
            s.visitchildren(n)

        def visit_CClassDefNode(s, n):
            s.cls.append(n.class_name)
            s.visitchildren(n)
            s.cls.pop()

        def visit_PyClassDefNode(s, n):
            s.cls.append(n.name)
            s.visitchildren(n)
            s.cls.pop()

        def visit_CFuncDefNode(s, n):
            d = n.declarator
            while not hasattr(d, 'name') and hasattr(d, 'base'):
                d = d.base
            out.append((s.cls[-1], getattr(d, 'name', '?'), n))
            s.visitchildren(n)

        def visit_DefNode(s, n):
            out.append((s.cls[-1], n.name, n))
            s.visitchildren(n)
    V().visit(tree)
    return out


def cy_apply_ir(path, cls='BDD'):
    tree, text = cy_parse(path)
    for c, name, node in cy_functions(tree):
        if name == 'apply' and c in (cls, 'BDD', 'ZDD'):
            ir = _cy_stats(node.body)
            params = []
            d = node.declarator
            for a in getattr(d, 'args', []) or []:
                dd_ = a.declarator
                while not getattr(dd_, 'name', None) and hasattr(dd_, 'base'):
                    dd_ = dd_.base
                nm = getattr(dd_, 'name', None) or getattr(a.base_type, 'name', None)
                params.append(nm)
            ir = [('params', params)] + ir
            first = node.pos[1]
            last = _last_line(node)
            src = '\n'.join(text.split('\n')[first - 1:last])
            return ir, src, c
    raise KeyError('apply not found in ' + path)


def cy_method_irs(path, cls='Function'):
    """-> {method name: IR} for every method of class `cls`."""
    tree, text = cy_parse(path)
    out = {}
    for c, name, node in cy_functions(tree):
        if c == cls:
            out[name] = _cy_stats(node.body)
    return out


def _last_line(node):
    m = [node.pos[1]]

    class V(TreeVisitor):
        def visit_Node(s, n):
            if getattr(n, 'pos', None):
                m[0] = max(m[0], n.pos[1])
            s.visitchildren(n)
    V().visit(node)
    return m[0]


def py_apply_ir(path, cls):
    text = open(path, encoding='utf8').read()
    tree = ast.parse(text)
    for c in tree.body:
        if isinstance(c, ast.ClassDef) and c.name == cls:
            for f in c.body:
                if isinstance(f, ast.FunctionDef) and f.name == 'apply':
                    src = ast.get_source_segment(text, f)
                    params = [a.arg for a in f.args.args]
                    return [('params', params)] + _py_stats(f.body), src, cls
    raise KeyError('apply not found')


def ir_strings(ir):
    """All string literals used in comparisons with `op` in an IR."""
    out = set()

    def ex(e):
        if not isinstance(e, tuple):
            return
        if e[0] == 'cmp' and e[2] == ('name', 'op'):
            r = e[3]
            if r[0] == 'str':
                out.add(r[1])
            elif r[0] == 'tuple':
                for a in r[1]:
                    if a[0] == 'str':
                        out.add(a[1])
        for x in e[1:]:
            if isinstance(x, tuple):
                ex(x)
            elif isinstance(x, list):
                for y in x:
                    if isinstance(y, tuple):
                        ex(y)

    def st(s):
        if s[0] == 'if':
            for c, b in s[1]:
                ex(c)
                for x in b:
                    st(x)
            for x in s[2]:
                st(x)
        elif s[0] in ('assign',):
            ex(s[2])
        elif s[0] in ('return', 'expr'):
            ex(s[1])
    for s in ir:
        st(s)
    return out


def source_op_strings(src):
    """String literals that a plain text scan finds in `op in (...)` / `op == '...'` tests."""
    out = set()
    for m in re.finditer(r"op\s+in\s*\(([^)]*)\)", src):
        for lit in re.finditer(r"""r?('(?:[^'\\]|\\.)*'|"(?:[^"\\]|\\.)*")""", m.group(1)):
            raw = lit.group(0)
            out.add(ast.literal_eval(raw))
    for m in re.finditer(r"""op\s*==\s*(r?'(?:[^'\\]|\\.)*')""", src):
        out.add(ast.literal_eval(m.group(1)))
    return out


# ====================================================================== interpreter

class Rejected(Exception):
    pass


class Uninterpreted(Exception):
    pass


class MGR:
    """Token for manager-like values."""

    def __repr__(self):
        return '<mgr>'


_MGR = MGR()


class Node:
    """A node of the library (a truth table); distinct from Python ints in the source."""

    def __init__(self, mask):
        self.mask = mask

    def __eq__(self, other):
        return isinstance(other, Node) and other.mask == self.mask

    def __hash__(self):
        return hash(('node', self.mask))

    def __repr__(self):
        return 'Node(%d)' % self.mask


class Handle:
    """A wrapped node (Function): has .node."""

    def __init__(self, node):
        self.node = node if isinstance(node, Node) else Node(node)


class Model:
    """Meaning of primitives over truth tables of the variables of a Universe."""

    def __init__(self, U):
        self.U = U
        F = U.full

        def q_forall(f, cube):
            return U.forall(f, sorted(U.support(cube)))

        def q_exists(f, cube):
            return U.exists(f, sorted(U.support(cube)))
        self.prims = {
            # CUDD BDD
            'Cudd_Not': lambda a: F ^ a,
            'Cudd_bddAnd': lambda a, b: a & b,
            'Cudd_bddOr': lambda a, b: a | b,
            'Cudd_bddXor': lambda a, b: a ^ b,
            'Cudd_bddXnor': lambda a, b: F ^ a ^ b,
            'Cudd_bddIte': lambda a, b, c: (a & b) | ((F ^ a) & c),
            'Cudd_ReadOne': lambda: F,
            'Cudd_ReadLogicZero': lambda: 0,
            'Cudd_bddUnivAbstract': q_forall,       # (f, cube)
            'Cudd_bddExistAbstract': q_exists,      # (f, cube)
            # CUDD ZDD (sets of assignments = characteristic functions)
            'Cudd_zddDiff': lambda a, b: a & (F ^ b),
            'Cudd_zddIntersect': lambda a, b: a & b,
            'Cudd_zddUnion': lambda a, b: a | b,
            'Cudd_zddIte': lambda a, b, c: (a & b) | ((F ^ a) & c),
            'Cudd_ReadZddOne': lambda i: F,
            '_forall_root': q_forall,               # (u, cube)
            '_exist_root': q_exists,
            # Sylvan: parameter names from c_sylvan.pxd: (a, qvars)
            'sylvan_not': lambda a: F ^ a,
            'sylvan_and': lambda a, b: a & b,
            'sylvan_or': lambda a, b: a | b,
            'sylvan_xor': lambda a, b: a ^ b,
            'sylvan_imp': lambda a, b: (F ^ a) | b,
            'sylvan_biimp': lambda a, b: F ^ a ^ b,
            'sylvan_diff': lambda a, b: a & (F ^ b),
            'sylvan_ite': lambda a, b, c: (a & b) | ((F ^ a) & c),
            'sylvan_forall': q_forall,              # (a, qvars)
            'sylvan_exists': q_exists,
            # BuDDy
            'bdd_not': lambda a: F ^ a,
            'bdd_and': lambda a, b: a & b,
            'bdd_or': lambda a, b: a | b,
            'bdd_xor': lambda a, b: a ^ b,
        }
        self.described = {
            'Cudd_bddIte(m,f,g,h)': 'f&g | ~f&h', 'Cudd_bddXnor(m,f,g)': '~(f^g)',
            'Cudd_bddUnivAbstract(m,f,cube)': 'forall vars(cube). f',
            'Cudd_bddExistAbstract(m,f,cube)': 'exists vars(cube). f',
            'Cudd_zddDiff(m,P,Q)': 'P & ~Q', 'Cudd_ReadZddOne(m,0)': 'TRUE (all assignments)',
            'Cudd_zddIte(m,f,g,h)': 'f&g | ~f&h',
            '_forall_root/_exist_root(m,u,cube)': 'forall/exists vars(cube). u',
            'sylvan_forall/exists(a,qvars)': 'forall/exists vars(qvars). a  (names from '
                                             'c_sylvan.pxd)',
            'sylvan_imp(a,b)': '~a | b', 'sylvan_diff(a,b)': 'a & ~b', 'sylvan_biimp': '~(a^b)',
            'bdd_and/or/xor/not': 'BuDDy connectives',
        }


class Interp:
    def __init__(self, model, arity_fn, vocabulary_names=None, sibling=False):
        self.M = model
        self.arity_fn = arity_fn          # real dd._utils.assert_operator_arity
        self.voc = vocabulary_names or {}
        self.sibling = sibling
        self.uninterpreted = []
        self.methods = {}       # IR of the methods of the wrapper's Function class
        self.apply_ir = None    # IR of the wrapper's apply (for methods that delegate to it)
        self.depth = 0

    BINOPS = {'|': '__or__', '&': '__and__', '^': '__xor__'}

    def run_method(self, name, u, v=None):
        """Run Function.<name> with self = u, other = v.  -> mask, or a Python bool."""
        if name not in self.methods:
            raise Uninterpreted('no method ' + name)
        self.depth += 1
        try:
            if self.depth > 6:
                raise Uninterpreted('method recursion')
            env = dict(self=u if isinstance(u, Handle) else Handle(u), mgr=_MGR)
            if v is not None:
                env['other'] = v if isinstance(v, Handle) else Handle(v)
            r = self._block(self.methods[name], env)
        finally:
            self.depth -= 1
        if r is _FALL:
            raise Uninterpreted('method fell off the end')
        if isinstance(r, (Handle, Node)):
            return self._mask(r)
        if r is _UNKNOWN_FALSE:
            return False
        if isinstance(r, (bool, int)):
            return bool(r)
        raise Uninterpreted('method result %r' % (r,))

    def run(self, ir, op, u, v, w):
        """-> mask result; raises Rejected / Uninterpreted."""
        env = dict(op=op, u=Handle(u), v=None if v is None else Handle(v),
                   w=None if w is None else Handle(w), self=_MGR, mgr=_MGR)
        if self.sibling:
            env['u'] = Node(u)
            env['v'] = None if v is None else Node(v)
            env['w'] = None if w is None else Node(w)
        r = self._block(ir, env)
        if r is _FALL:
            if 'r' in env and env['r'] is not None:
                return self._mask(env['r'])
            raise Uninterpreted('fell off the end without a result')
        return self._mask(r)

    def _mask(self, x):
        if isinstance(x, Handle):
            return x.node.mask
        if isinstance(x, Node):
            return x.mask
        raise Uninterpreted('result is not a node: %r' % (x,))

    def _block(self, stats, env):
        for s in stats:
            k = s[0]
            if k == 'if':
                taken = False
                for cond, body in s[1]:
                    if self._truth(self._eval(cond, env)):
                        r = self._block(body, env)
                        if r is not _FALL:
                            return r
                        taken = True
                        break
                if not taken:
                    r = self._block(s[2], env)
                    if r is not _FALL:
                        return r
            elif k == 'assign':
                env[s[1]] = self._eval(s[2], env)
            elif k == 'return':
                return self._eval(s[1], env)
            elif k == 'raise':
                raise Rejected(s[1])
            elif k == 'expr':
                self._eval(s[1], env)
            elif k == 'params':
                for nm in ('v', 'w'):
                    if nm not in s[1] and env.get(nm) is not None:
                        raise Rejected('no parameter ' + nm)
            elif k == 'opaque':
                raise Uninterpreted('statement ' + s[1])
        return _FALL

    def _truth(self, x):
        if x is _UNKNOWN_FALSE:
            return False
        return bool(x)

    def _eval(self, e, env):
        k = e[0]
        F = self.M.U.full
        if k == 'name':
            n = e[1]
            if n in env:
                return env[n]
            if n in self.voc:
                return self.voc[n]
            if n in ('NULL',):
                return None
            return ('fn', n)
        if k == 'str':
            return e[1]
        if k == 'int':
            if self.sibling and e[1] == 1:
                return Node(F)          # the reference 1 is TRUE in dd.bdd / dd.mdd
            return e[1]
        if k in ('none', 'null'):
            return None
        if k == 'tuple':
            return tuple(self._eval(a, env) for a in e[1])
        if k == 'attr':
            obj = self._eval(e[1], env)
            a = e[2]
            if isinstance(obj, Handle):
                if a == 'node':
                    return obj.node
                if a in ('manager', 'bdd', 'zdd'):
                    return _MGR
                raise Uninterpreted('attribute ' + a)
            if obj is _MGR:
                if a in ('manager',):
                    return _MGR
                if a == 'true':
                    return Handle(F)
                if a == 'false':
                    return Handle(0)
                return ('method', a)
            if isinstance(obj, tuple) and obj[0] == 'fn':
                # module attribute: sy.sylvan_and, buddy.bdd_and, _utils.assert_operator_arity
                if a == 'sylvan_invalid':
                    return ('invalid',)
                if a == 'LACE_ME_WRAP':
                    return None
                return ('fn', a)
            if obj is None:
                return _UNKNOWN_FALSE
            raise Uninterpreted('attribute %s of %r' % (a, obj))
        if k == 'binop' or k == 'invert':
            a = self._eval(e[2] if k == 'binop' else e[1], env)
            if not isinstance(a, Handle):
                raise Uninterpreted('operator on %r' % (a,))
            if k == 'invert':
                return Handle(self.run_method('__invert__', a))
            b = self._eval(e[3], env)
            if not isinstance(b, Handle):
                raise Uninterpreted('operator on %r' % (b,))
            return Handle(self.run_method(self.BINOPS[e[1]], a, b))
        if k == 'neg':
            x = self._eval(e[1], env)
            if isinstance(x, Node):
                if self.sibling:
                    return Node(F ^ x.mask)     # -u negates a reference in dd.bdd / dd.mdd
                raise Uninterpreted('unary minus on a C node')
            if isinstance(x, int):
                return -x
            raise Uninterpreted('unary minus')
        if k == 'not':
            return not self._truth(self._eval(e[1], env))
        if k == 'bool':
            if e[1] == 'and':
                r = True
                for x in e[2]:
                    r = self._eval(x, env)
                    if not self._truth(r):
                        return False
                return r
            r = False
            for x in e[2]:
                r = self._eval(x, env)
                if self._truth(r):
                    return r
            return r
        if k == 'cmp':
            op, a, b = e[1], self._eval(e[2], env), self._eval(e[3], env)
            if op in ('in', 'not_in'):
                if b is _MGR:
                    res = True          # `abs(u) in self`: operands are valid nodes
                elif isinstance(b, (tuple, set, frozenset, list)):
                    res = a in b
                else:
                    raise Uninterpreted('membership in %r' % (b,))
                return res if op == 'in' else not res
            if op in ('==', '!=') and isinstance(a, Handle) and isinstance(b, Handle):
                # comparison of two Functions: the class's own __eq__ / __ne__
                return self.run_method('__eq__' if op == '==' else '__ne__', a, b)
            if op in ('is', 'is_not', '==', '!='):
                if a is _MGR or b is _MGR:
                    same = True         # manager identity guards: same manager
                elif isinstance(a, tuple) and a and a[0] == 'invalid' or (
                        isinstance(b, tuple) and b and b[0] == 'invalid'):
                    same = False        # the library did not fail
                elif a is None or b is None:
                    same = (a is None and b is None)
                else:
                    same = a == b
                return same if op in ('is', '==') else not same
            raise Uninterpreted('comparison ' + op)
        if k == 'call':
            f = self._eval(e[1], env)
            args = [self._eval(a, env) for a in e[2]]
            kw = {n: self._eval(x, env) for n, x in e[3].items()}
            return self._call(f, args, kw, env)
        if k == 'opaque':
            raise Uninterpreted('expression ' + e[1])
        raise Uninterpreted(k)

    def _call(self, f, args, kw, env):
        M = self.M
        U = M.U
        if not (isinstance(f, tuple) and f[0] in ('fn', 'method')):
            raise Uninterpreted('call of %r' % (f,))
        name = f[1]
        vals = []
        for a in args:
            if a is _MGR:
                continue
            if isinstance(a, Handle):
                a = a.node
            vals.append(a.mask if isinstance(a, Node) else a)
        if name == 'assert_operator_arity':
            op, v, w = args[0], args[1], args[2]
            try:
                self.arity_fn(op, v, w, 'bdd')
            except ValueError:
                raise Rejected('arity')
            return None
        if name == 'apply' and f[0] == 'method' and self.apply_ir is not None:
            ops = [a for a in args if a is not _MGR]
            vs = [x.node.mask if isinstance(x, Handle) else x for x in ops[1:]]
            vs += [None] * (3 - len(vs))
            return Handle(self.run(self.apply_ir, ops[0], vs[0], vs[1], vs[2]))
        if name in ('wrap', 'Function'):
            return Handle(vals[-1] if name == 'wrap' else vals[0])
        if name == 'abs':
            return Node(vals[0])
        if name == 'configure':
            return {}
        if name == 'support':
            return frozenset(U.support(vals[0]))
        if name == '_dict_to_zdd':
            m = U.full
            for n in vals[0]:
                m &= U.var(n)
            return Handle(m)
        if name == 'ite' and f[0] == 'method':
            a, b, c = vals
            return Node((a & b) | ((U.full ^ a) & c))
        if name == 'quantify' and f[0] == 'method':
            fa = kw.get('forall', vals[2] if len(vals) > 2 else False)
            return Node(U.quantify(vals[0], sorted(vals[1]), bool(fa)))
        if name in M.prims:
            try:
                return Node(M.prims[name](*vals))
            except TypeError as e:
                raise Uninterpreted('primitive %s called with %d operands' % (name, len(vals)))
        raise Uninterpreted('unknown callee ' + name)


class _Fall:
    pass


_FALL = _Fall()
_UNKNOWN_FALSE = _Fall()


# ====================================================================== reference paths

REF = {'Cudd_Ref', 'cuddRef', 'sylvan_ref', 'bdd_addref'}
DEREF = {'Cudd_RecursiveDeref', 'Cudd_RecursiveDerefZdd', 'Cudd_Deref', 'cuddDeref',
         'sylvan_deref', 'bdd_delref', 'Cudd_IterDerefBdd'}
SHALLOW_DEREF = {'cuddDeref', 'Cudd_Deref'}
OWNED = {'Dddmp_cuddBddLoad'}      # return a node that already carries a reference
METHOD_REF = {'_incref': +1, '_decref': -1}    # self._incref(x) / self._decref(x, ...)


def _fname(call):
    f = call.function
    if isinstance(f, ExprNodes.NameNode):
        return f.name
    if isinstance(f, ExprNodes.AttributeNode):
        return f.attribute
    return None


def _etext(e):
    if isinstance(e, ExprNodes.NameNode):
        return e.name
    if isinstance(e, ExprNodes.AttributeNode):
        return _etext(e.obj) + '.' + e.attribute
    if isinstance(e, ExprNodes.IndexNode):
        return _etext(e.base) + '[]'
    if isinstance(e, ExprNodes.TypecastNode):
        return _etext(e.operand)
    return '<%s>' % type(e).__name__


def _calls_in(node):
    out = []

    class V(TreeVisitor):
        def visit_Node(s, n):
            s.visitchildren(n)

        def visit_SimpleCallNode(s, n):
            out.append(n)
            s.visitchildren(n)

        def visit_GeneralCallNode(s, n):
            # f(a, b, key=value): give it the same `.args` view as a simple call
            try:
                n.args = list(n.positional_args.args)
            except AttributeError:
                n.args = []
            out.append(n)
            s.visitchildren(n)
    V().visit(node)
    return out


class PathExplosion(Exception):
    pass


class RefPaths:
    """All paths through one function body; per path the ledger {variable: balance}."""

    def __init__(self, src_lines, limit=50000, ref=None, deref=None, may_return=None):
        self.may_return = may_return or {}   # callee -> positions of parameters it may return
        self.src = src_lines
        self.limit = limit
        self.REF = REF if ref is None else ref
        self.DEREF = DEREF if deref is None else deref
        self.exits = []         # (kind, line, ledger, detail)
        self.steps = 0
        self.container_vars = set()
        self.container_base = {}     # loop / item variable -> name of the container it walks

    def _prepass(self, body):
        """Names that stand for items of containers / pointer walks (loop targets, x = a[i],
        x = a.b): references held through them are container-mediated."""
        cv = self.container_vars
        cb = self.container_base

        class V(TreeVisitor):
            def visit_Node(s, n):
                s.visitchildren(n)

            def visit_ForInStatNode(s, n):
                t = n.target
                it = getattr(n.iterator, 'sequence', None)
                while isinstance(it, (ExprNodes.SimpleCallNode, ExprNodes.GeneralCallNode)):
                    # table.values(), enumerate(vector), ...: the first name inside
                    fn_ = it.function
                    if isinstance(fn_, ExprNodes.AttributeNode):
                        it = fn_.obj
                    elif getattr(it, 'args', None):
                        it = it.args[0]
                    else:
                        break
                base = re.match(r'[A-Za-z_]\w*', _etext(it) if it is not None else '')
                base = base.group(0) if base else None
                if isinstance(t, ExprNodes.NameNode):
                    cv.add(t.name)
                    if base:
                        cb[t.name] = base
                elif isinstance(t, ExprNodes.TupleNode):
                    for a in t.args:
                        if isinstance(a, ExprNodes.NameNode):
                            cv.add(a.name)
                            if base:
                                cb[a.name] = base
                s.visitchildren(n)

            def visit_SingleAssignmentNode(s, n):
                r = n.rhs
                while isinstance(r, ExprNodes.TypecastNode):
                    r = r.operand
                if isinstance(n.lhs, ExprNodes.NameNode) and isinstance(
                        r, (ExprNodes.IndexNode, ExprNodes.AttributeNode)):
                    cv.add(n.lhs.name)
                    if isinstance(r, ExprNodes.IndexNode):
                        b_ = re.match(r'[A-Za-z_]\w*', _etext(r.base))
                        if b_:
                            cb[n.lhs.name] = b_.group(0)
                s.visitchildren(n)
        V().visit(body)

    @staticmethod
    def _null_test(cond):
        """-> (variable text, True if the condition says 'is NULL') or None."""
        if isinstance(cond, ExprNodes.PrimaryCmpNode) and isinstance(
                cond.operand2, ExprNodes.NullNode) and cond.operator in ('is', 'is_not'):
            return _etext(cond.operand1), cond.operator == 'is'
        return None

    def run(self, body):
        self._prepass(body)
        falls = self._paths([body], 0, {}, {})
        for led, conds in falls:
            self.exits.append(('fall', None, led, None, dict(conds)))
        return self.exits

    def _apply_calls(self, st, led):
        led = dict(led)
        # the wrappers' own lower bound on the reference count:  X._ref += 1 / -= 1 / = 1
        tname = type(st).__name__
        if tname == 'InPlaceAssignmentNode' and isinstance(st.lhs, ExprNodes.AttributeNode) \
                and st.lhs.attribute == '_ref' and isinstance(st.rhs, ExprNodes.IntNode):
            k = _etext(st.lhs)
            d = int(st.rhs.value) * (1 if st.operator == '+' else -1 if st.operator == '-' else 0)
            led[k] = led.get(k, 0) + d
        if tname == 'SingleAssignmentNode' and isinstance(st.lhs, ExprNodes.AttributeNode) \
                and st.lhs.attribute == '_ref' and isinstance(st.rhs, ExprNodes.IntNode):
            led[_etext(st.lhs)] = int(st.rhs.value)
        post_ref = []
        for c in _calls_in(st):
            f = _fname(c)
            if self.REF is REF and c.args and (
                    f in REF or f in DEREF or (f in METHOD_REF and isinstance(
                        c.function, ExprNodes.AttributeNode))):
                a0 = _etext(c.args[0] if (f in REF or f in METHOD_REF) else c.args[-1])
                if led.get('<null>' + a0):
                    # a reference primitive applied to a pointer this path has set to NULL
                    led['<nullderef>'] = led.get('<nullderef>', 0) + 1
                    continue
            if self.REF is REF and f in METHOD_REF and c.args and isinstance(
                    c.function, ExprNodes.AttributeNode):
                a = _etext(c.args[0])
                led[a] = led.get(a, 0) + METHOD_REF[f]
                continue
            if f in self.REF and c.args:
                a = _etext(c.args[0]) if self.REF is REF else '<calls>'
                if self.REF is REF and a.startswith('<'):
                    # the reference is taken on the value of an expression:
                    #   x = addref(f(...))  -> it is held through x;  otherwise nobody holds it
                    r_ = getattr(st, 'rhs', None)
                    while isinstance(r_, ExprNodes.TypecastNode):
                        r_ = r_.operand
                    if r_ is c and isinstance(getattr(st, 'lhs', None), ExprNodes.NameNode):
                        post_ref.append(st.lhs.name)    # applied after the assignment itself
                        continue
                    a = 'anonymous@%d' % c.pos[1]
                led[a] = led.get(a, 0) + 1
                led.pop('<dep>' + a, None)      # referenced: no longer at the operands' mercy
            elif f in self.DEREF and c.args:
                a = _etext(c.args[-1])
                led[a] = led.get(a, 0) - 1
                an = c.args[-1]
                while isinstance(an, ExprNodes.TypecastNode):
                    an = an.operand
                base = None
                if isinstance(an, ExprNodes.IndexNode):
                    b_ = re.match(r'[A-Za-z_]\w*', _etext(an.base))
                    base = b_.group(0) if b_ else None
                elif isinstance(an, ExprNodes.NameNode):
                    base = self.container_base.get(an.name)
                if base:
                    led['<crel>' + base] = led.get('<crel>' + base, 0) + 1
                for k_ in [k_ for k_ in led if k_.startswith('<dep>')]:
                    x_ = k_[5:]
                    if a in led[k_] and led.get(x_, 0) <= 0 and not led.get('<null>' + x_):
                        led['<early>'] = (a, x_)
                if f in SHALLOW_DEREF:
                    # releases the node WITHOUT releasing its successors when the count reaches
                    # zero: legitimate only for handing a floating result back to the caller
                    led['<shallow>' + a] = 1
        if isinstance(st, Nodes.SingleAssignmentNode) and isinstance(st.lhs, ExprNodes.NameNode):
            x = st.lhs.name
            # a scalar that still carries references is overwritten: they can no longer be
            # released through it
            if self.REF is REF and led.get(x, 0) > 0 and x not in self.container_vars:
                led['<orphan>' + x] = led.get('<orphan>' + x, 0) + led[x]
                led[x] = 0
            # result that may BE one of the (referenced) operands: they must not be released
            # before the result is referenced or known to be NULL
            led.pop('<dep>' + x, None)
            r = st.rhs
            if isinstance(r, ExprNodes.SimpleCallNode) and _fname(r) in self.may_return:
                texts = [_etext(a) for a in r.args]
                deps = tuple(sorted(
                    t for i, t in enumerate(texts)
                    if i in self.may_return[_fname(r)] and led.get(t, 0) > 0
                    and texts.count(t) == 1))
                if deps:
                    led['<dep>' + x] = deps
        for x in post_ref:
            led[x] = led.get(x, 0) + 1
        # owned results:  x = OWNED(...)
        if isinstance(st, Nodes.SingleAssignmentNode) and isinstance(
                st.rhs, ExprNodes.SimpleCallNode) and _fname(st.rhs) in OWNED:
            a = _etext(st.lhs)
            led[a] = led.get(a, 0) + 1
        # X = NULL marks X as a null pointer on this path; any other assignment clears the mark
        if isinstance(st, Nodes.SingleAssignmentNode) and isinstance(
                st.lhs, (ExprNodes.NameNode, ExprNodes.AttributeNode)):
            k = '<null>' + _etext(st.lhs)
            if isinstance(st.rhs, ExprNodes.NullNode) or (
                    isinstance(st.rhs, ExprNodes.IntNode) and int(st.rhs.value) == 0
                    and isinstance(st.lhs, ExprNodes.AttributeNode)
                    and st.lhs.attribute == 'node'):
                # NULL pointer, or the integer handle 0 stored over a node field
                led[k] = 1
            elif k in led:
                del led[k]
        # parking a node in a container hands one reference over:  c[i] = x
        if isinstance(st, Nodes.SingleAssignmentNode) and isinstance(
                st.lhs, ExprNodes.IndexNode):
            r = st.rhs
            while isinstance(r, ExprNodes.TypecastNode):
                r = r.operand
            if isinstance(r, (ExprNodes.NameNode, ExprNodes.AttributeNode)):
                a = _etext(r)
                if a in led:
                    led[a] = led.get(a, 0) - 1
                    c = _etext(st.lhs)
                    led[c] = led.get(c, 0) + 1
                    b_ = re.match(r'[A-Za-z_]\w*', _etext(st.lhs.base))
                    if b_:
                        led['<park>' + b_.group(0)] = 1
        return led

    def _cond_key(self, c):
        line = self.src[c.pos[1] - 1].strip()
        return line

    def _paths(self, stats, i, led, conds):
        self.steps += 1
        if self.steps > self.limit:
            raise PathExplosion()
        if i == len(stats):
            return [(led, conds)]
        st = stats[i]

        def cont(l, c):
            return self._paths(stats, i + 1, l, c)
        t = type(st).__name__
        res = []
        if t == 'StatListNode':
            for l, c in self._paths(st.stats, 0, led, conds):
                res += cont(l, c)
            return res
        if t in ('ReturnStatNode', 'RaiseStatNode'):
            l = self._apply_calls(st, led)
            detail = None
            if t == 'ReturnStatNode' and st.value is not None:
                detail = _etext(st.value) if not isinstance(
                    st.value, ExprNodes.SimpleCallNode) else 'call:' + str(_fname(st.value))
                if isinstance(st.value, ExprNodes.SimpleCallNode):
                    # the values handed to the call that produces the result
                    l = dict(l)
                    l['<returned-through>'] = tuple(_etext(a) for a in st.value.args)
            if t == 'RaiseStatNode' and st.exc_type is not None:
                x = st.exc_type
                if isinstance(x, ExprNodes.SimpleCallNode):
                    detail = _fname(x)
                elif isinstance(x, ExprNodes.NameNode):
                    detail = x.name
            self.exits.append((t, st.pos[1], l, detail, dict(conds)))
            return []
        if t == 'IfStatNode':
            branches = [(self._cond_key(cl.condition), cl.body) for cl in st.if_clauses]
            nulls = [self._null_test(cl.condition) for cl in st.if_clauses]

            def rec(k, led_, conds_):
                r = []
                if k == len(branches):
                    if st.else_clause is not None:
                        for l, c in self._paths([st.else_clause], 0, led_, conds_):
                            r += cont(l, c)
                    else:
                        r += cont(led_, conds_)
                    return r
                key, body = branches[k]
                known = conds_.get(key)
                nt = nulls[k]
                if known is not False:
                    c2 = dict(conds_)
                    c2[key] = True
                    l_true = led_
                    if nt is not None and nt[1]:
                        l_true = dict(led_)
                        l_true[nt[0]] = 0       # a NULL pointer carries no reference
                        l_true.pop('<dep>' + nt[0], None)
                    for l, c in self._paths([body], 0, l_true, c2):
                        r += cont(l, c)
                if known is not True:
                    c2 = dict(conds_)
                    c2[key] = False
                    l_false = led_
                    if nt is not None and not nt[1]:
                        l_false = dict(led_)
                        l_false[nt[0]] = 0
                        l_false.pop('<dep>' + nt[0], None)
                    r += rec(k + 1, l_false, c2)
                return r
            return rec(0, led, conds)
        if t in ('ForInStatNode', 'WhileStatNode', 'ForFromStatNode'):
            res += cont(led, conds)
            one = self._paths([st.body], 0, led, conds)
            for l, c in one:
                res += cont(l, c)
                for l2, c2 in self._paths([st.body], 0, l, c):
                    res += cont(l2, c2)
            return res
        if t == 'TryFinallyStatNode':
            for l, c in self._paths([st.body], 0, led, conds):
                for l2, c2 in self._paths([st.finally_clause], 0, l, c):
                    res += cont(l2, c2)
            return res
        if t == 'TryExceptStatNode':
            for l, c in self._paths([st.body], 0, led, conds):
                res += cont(l, c)
            return res
        l = self._apply_calls(st, led)
        c2 = conds
        if t in ('SingleAssignmentNode', 'CascadedAssignmentNode', 'ParallelAssignmentNode',
                 'InPlaceAssignmentNode'):
            names = set()

            class V(TreeVisitor):
                def visit_Node(s, n):
                    s.visitchildren(n)

                def visit_NameNode(s, n):
                    names.add(n.name)
            lhs = getattr(st, 'lhs', None)
            if lhs is not None:
                V().visit(lhs)
            else:
                for x in getattr(st, 'stats', []) or []:
                    if getattr(x, 'lhs', None) is not None:
                        V().visit(x.lhs)
            c2 = {k: v for k, v in conds.items()
                  if not any(re.search(r'\b%s\b' % re.escape(nm), k) for nm in names)}
        return cont(l, c2)


def _param_names(node):
    out = []
    d = node.declarator if hasattr(node, 'declarator') else None
    args = getattr(d, 'args', None) if d is not None else getattr(node, 'args', None)
    for a in args or []:
        dd_ = a.declarator
        while not getattr(dd_, 'name', None) and hasattr(dd_, 'base'):
            dd_ = dd_.base
        nm = getattr(dd_, 'name', None) or getattr(a.base_type, 'name', None)
        out.append(nm)
    return out


def ref_functions(path):
    """-> list of dict(cls, name, exits, explosion) for functions that touch REF/DEREF/OWNED."""
    tree, text = cy_parse(path)
    src = text.split('\n')
    out = []
    has_field = bool(re.search(r'cdef\s+public\s+int\s+_ref\b', text))
    may_return = {}
    for cls, name, node in cy_functions(tree):
        params = _param_names(node)
        pos = set()

        class RV(TreeVisitor):
            def visit_Node(s, n):
                s.visitchildren(n)

            def visit_ReturnStatNode(s, n):
                if isinstance(n.value, ExprNodes.NameNode) and n.value.name in params:
                    pos.add(params.index(n.value.name))
        RV().visit(node.body)
        if pos and cls is None:
            may_return[name] = pos
    for cls, name, node in cy_functions(tree):
        cs = {_fname(c) for c in _calls_in(node.body)}
        touches_ref_field = bool(re.search(r"\._ref\s*(\+=|-=|=)[^=]", "\n".join(
            src[node.pos[1] - 1:_last_line(node)])))
        if has_field and ((cls == 'Function' and name in ('init', '__cinit__', '__dealloc__'))
                          or (cls in ('BDD', 'ZDD') and name in ('incref', 'decref'))):
            # life-cycle methods of a wrapper whose Function keeps its own lower bound
            touches_ref_field = True
        if not (cs & (REF | DEREF | OWNED | set(METHOD_REF))) and not touches_ref_field:
            continue
        rp = RefPaths(src, may_return=may_return)
        try:
            exits = rp.run(node.body)
            out.append(dict(cls=cls, name=name, exits=exits, explosion=False, steps=rp.steps,
                            line=node.pos[1], container_vars=sorted(rp.container_vars),
                            touches_ref_field=touches_ref_field))
        except PathExplosion:
            out.append(dict(cls=cls, name=name, exits=[], explosion=True, steps=rp.steps,
                            line=node.pos[1], container_vars=[]))
    return out


def wrap_discipline(path):
    """Every path through `wrap(...)` must call `.init(...)` exactly once (the Function
    constructor that takes the library reference). -> list of (line, calls) offenders, found?"""
    tree, text = cy_parse(path)
    src = text.split('\n')
    for cls, name, node in cy_functions(tree):
        if name == 'wrap' and cls is None:
            rp = RefPaths(src, ref={'init'}, deref=set())
            exits = rp.run(node.body)
            bad = []
            for kind, line, led, detail, _conds in exits:
                if kind == 'RaiseStatNode':
                    continue
                n = led.get('<calls>', 0)
                if n != 1:
                    bad.append((line, n))
            return True, bad, len(exits)
    return False, [], 0


def temporary_node_uses(path):
    """Assignments `x = <call>(...).node` (also under casts): the Function produced by the call
    is a temporary that is disposed of (giving its library reference back) at the end of the
    statement, while the raw node stored in x is used afterwards without any reference.
    -> (list of (cls, function, line, text), number of assignments inspected)"""
    tree, text = cy_parse(path)
    src = text.split('\n')
    out = []
    seen = [0]
    for cls, name, node in cy_functions(tree):
        def strip(r):
            while isinstance(r, ExprNodes.TypecastNode):
                r = r.operand
            return r

        class V(TreeVisitor):
            def visit_Node(s, n):
                s.visitchildren(n)

            def visit_SingleAssignmentNode(s, n):
                seen[0] += 1
                r = strip(n.rhs)
                if isinstance(r, ExprNodes.AttributeNode) and r.attribute == 'node' and isinstance(
                        strip(r.obj), (ExprNodes.SimpleCallNode, ExprNodes.GeneralCallNode)):
                    out.append((cls, name, n.pos[1], src[n.pos[1] - 1].strip()))
                s.visitchildren(n)
        V().visit(node.body)
    return out, seen[0]


TRANSFER_DEST = {'Cudd_bddTransfer': 1, 'Cudd_bddTransferRename': 1}    # index of the receiving manager


def wrap_manager_uses(path):
    """`wrap(M, r)` must name the manager the node r belongs to.  Decided where it can be read
    off the source: r was assigned from a C call that mentions exactly one manager expression
    `X.manager` (or the receiving manager of a transfer primitive) with X a parameter other than
    the owner the wrap names.  -> (offenders [(cls, function, line, text)], wraps inspected)"""
    tree, text = cy_parse(path)
    src = text.split('\n')
    out = []
    seen = [0]
    for cls, name, node in cy_functions(tree):
        owner = {}      # variable -> name X such that the node belongs to X's manager

        class V(TreeVisitor):
            def visit_Node(s, n):
                s.visitchildren(n)

            def visit_SingleAssignmentNode(s, n):
                r = n.rhs
                while isinstance(r, ExprNodes.TypecastNode):
                    r = r.operand
                if isinstance(n.lhs, ExprNodes.NameNode) and isinstance(r, ExprNodes.SimpleCallNode):
                    mgrs = []
                    for a in r.args:
                        t = _etext(a)
                        if t.endswith('.manager'):
                            mgrs.append(t[:-len('.manager')])
                    f = _fname(r)
                    if f in TRANSFER_DEST and len(mgrs) > TRANSFER_DEST[f]:
                        owner[n.lhs.name] = mgrs[TRANSFER_DEST[f]]
                    elif len(set(mgrs)) == 1:
                        owner[n.lhs.name] = mgrs[0]
                    else:
                        owner.pop(n.lhs.name, None)
                s.visitchildren(n)

            def visit_SimpleCallNode(s, n):
                if _fname(n) == 'wrap' and len(n.args) == 2:
                    seen[0] += 1
                    m_, r_ = _etext(n.args[0]), _etext(n.args[1])
                    x = owner.get(r_)
                    if x is not None and x != 'self':
                        ok = {x, x + '.bdd', x + '.zdd'}
                        # `u.bdd` names u's manager; a plain parameter names itself
                        named = m_[:-4] if m_.endswith(('.bdd', '.zdd')) else m_
                        if named != x and m_ not in ok:
                            out.append((cls, name, n.pos[1], src[n.pos[1] - 1].strip(), x))
                s.visitchildren(n)
        V().visit(node.body)
    return out, seen[0]


def container_reuse_in_loops(path):
    """A container through which parked references are released inside a loop must be created
    inside that loop as well: otherwise the next iteration finds entries whose references are
    gone.  -> (offenders [(cls, function, line, container)], loops inspected)"""
    tree, text = cy_parse(path)
    out = []
    seen = [0]
    for cls, name, node in cy_functions(tree):
        created = {}    # container name -> list of loop nodes enclosing its creation ([] = none)

        class V(TreeVisitor):
            def __init__(s):
                super().__init__()
                s.loops = []

            def visit_Node(s, n):
                s.visitchildren(n)

            def _loop(s, n):
                s.loops.append(n)
                s.visitchildren(n)
                s.loops.pop()
            visit_WhileStatNode = _loop
            visit_ForInStatNode = _loop
            visit_ForFromStatNode = _loop

            def visit_SingleAssignmentNode(s, n):
                r = n.rhs
                if isinstance(n.lhs, ExprNodes.NameNode) and (
                        isinstance(r, (ExprNodes.DictNode, ExprNodes.ListNode)) or (
                            isinstance(r, ExprNodes.SimpleCallNode) and
                            _fname(r) in ('dict', 'list', 'set'))):
                    created.setdefault(n.lhs.name, []).append(list(s.loops))
                s.visitchildren(n)
        V().visit(node.body)
        if not created:
            continue

        class W(TreeVisitor):
            def __init__(s):
                super().__init__()
                s.loops = []

            def visit_Node(s, n):
                s.visitchildren(n)

            def _loop(s, n):
                # a release loop:  for x in C.values(): DEREF(x)
                it = getattr(getattr(n, 'iterator', None), 'sequence', None)
                base = None
                while isinstance(it, (ExprNodes.SimpleCallNode, ExprNodes.GeneralCallNode)):
                    fn_ = it.function
                    if isinstance(fn_, ExprNodes.AttributeNode):
                        it = fn_.obj
                    elif getattr(it, 'args', None):
                        it = it.args[0]
                    else:
                        break
                if isinstance(it, ExprNodes.NameNode):
                    base = it.name
                if base in created and any(_fname(c) in DEREF for c in _calls_in(n.body)):
                    seen[0] += 1
                    outer = list(s.loops)
                    if outer:
                        # the release runs inside `outer[-1]`: some creation of the container
                        # must be inside that loop too
                        if not any(outer[-1] in lp for lp in created[base]):
                            out.append((cls, name, n.pos[1], base))
                s.loops.append(n)
                s.visitchildren(n)
                s.loops.pop()
            visit_WhileStatNode = _loop
            visit_ForInStatNode = _loop
            visit_ForFromStatNode = _loop
        W().visit(node.body)
    return out, seen[0]


# CUDD keeps two permutations: perm[index] = level, invperm[level] = index.
INDEX_SOURCES = {'Cudd_NodeReadIndex', 'Cudd_ReadInvPerm', 'Cudd_ReadInvPermZdd'}
LEVEL_SOURCES = {'Cudd_ReadPerm', 'Cudd_ReadPermZdd', 'level_of_var'}
WANTS_INDEX = {'Cudd_ReadPerm', 'Cudd_ReadPermZdd'}
WANTS_LEVEL = {'Cudd_ReadInvPerm', 'Cudd_ReadInvPermZdd'}


def index_level_confusions(path):
    """An int known to be a variable INDEX handed to a primitive that expects a LEVEL, or the
    other way round (known = assigned in the same function from a primitive or attribute whose
    result kind is fixed).  -> (offenders [(cls, function, line, text)], sink calls inspected)"""
    tree, text = cy_parse(path)
    src = text.split('\n')
    out = []
    seen = [0]

    def kind_of(e, kinds):
        while isinstance(e, ExprNodes.TypecastNode):
            e = e.operand
        if isinstance(e, ExprNodes.NameNode):
            return kinds.get(e.name)
        if isinstance(e, ExprNodes.AttributeNode):
            if e.attribute == '_index':
                return 'index'
            if e.attribute == 'level':
                return 'level'
            return None
        if isinstance(e, ExprNodes.IndexNode):
            t = _etext(e.base)
            if t.endswith('_index_of_var'):
                return 'index'
            return None
        if isinstance(e, (ExprNodes.SimpleCallNode, ExprNodes.GeneralCallNode)):
            f = _fname(e)
            if f in INDEX_SOURCES:
                return 'index'
            if f in LEVEL_SOURCES:
                return 'level'
        return None
    for cls, name, node in cy_functions(tree):
        kinds = {}

        class V(TreeVisitor):
            def visit_Node(s, n):
                s.visitchildren(n)

            def visit_SingleAssignmentNode(s, n):
                s.visitchildren(n)
                if isinstance(n.lhs, ExprNodes.NameNode):
                    k = kind_of(n.rhs, kinds)
                    if k:
                        kinds[n.lhs.name] = k
                    else:
                        kinds.pop(n.lhs.name, None)

            def visit_SimpleCallNode(s, n):
                f = _fname(n)
                if (f in WANTS_INDEX or f in WANTS_LEVEL) and len(n.args) >= 2:
                    seen[0] += 1
                    k = kind_of(n.args[1], kinds)
                    want = 'index' if f in WANTS_INDEX else 'level'
                    if k is not None and k != want:
                        out.append((cls, name, n.pos[1], src[n.pos[1] - 1].strip(), k, want))
                s.visitchildren(n)
        V().visit(node.body)
    return out, seen[0]
