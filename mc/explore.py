"""Explicit-state breadth-first explorer over real objects.

A machine supplies seeds (states built through the public API), an alphabet of
actions per state, and `apply` which calls the real method on the state in
place and raises `oracle.Violation` when an invariant fails. The explorer visits
every reachable state up to a depth bound exactly once (exact keys -> 128-bit
digests), layer by layer, sharding each layer over worker processes.
"""
import pickle
import time

from . import env
from .oracle import Violation
from .run import Report, pmap, pimap, HarnessError
from . import state as S

_machine = None


def _set_machine(m):
    global _machine
    _machine = m


def _expand(chunk):
    """Worker: expand a chunk of frontier items [(blob, seedlabel, trace)]."""
    mach = _machine
    rep = Report()
    mach.rep = rep      # machines may record their own counters
    out = []
    local = set()
    for blob, seed, trace in chunk:
        st0 = pickle.loads(blob)
        acts = mach.actions(st0)
        rep.add('expanded')
        for a in acts:
            st = pickle.loads(blob)
            rep.add('transitions')
            rep.add('act:' + str(a[0]))
            try:
                mach.apply(st, a)
                try:
                    mach.invariant(st)
                except Violation:
                    raise
                except Exception as e:  # noqa
                    # the independent checker itself fell over: the state is malformed
                    raise Violation('the state is malformed (invariant checker raised %s)'
                                    % type(e).__name__, error=str(e)[:160])
            except Violation as v:
                rep.violation(mach.signature(v, a), v.what,
                              dict(machine=mach.name, seed=seed, trace=list(trace) + [a]),
                              **v.detail)
                continue
            except BaseException as e:  # unexpected exception out of the library
                from .run import TaskTimeout, arm_timer
                if isinstance(e, TaskTimeout):
                    # this one transition used up the CPU budget of the whole chunk
                    rep.violation('timeout@' + str(a[0]),
                                  'a transition did not finish: %s' % e,
                                  dict(machine=mach.name, seed=seed, trace=list(trace) + [a]))
                    arm_timer()
                    continue
                if not isinstance(e, Exception):
                    raise
                sig = mach.unexpected(e, a)
                if sig is None:
                    rep.add('refused')
                    rep.add('refused:' + str(a[0]))
                    continue
                rep.violation(sig, 'unexpected %s: %s' % (type(e).__name__, str(e)[:200]),
                              dict(machine=mach.name, seed=seed, trace=list(trace) + [a]))
                continue
            d = S.digest(mach.key(st))
            if d in local:
                continue
            local.add(d)
            out.append((d, pickle.dumps(st, pickle.HIGHEST_PROTOCOL), seed,
                        tuple(trace) + (a,)))
    return out, rep


_expand.returns_report = False


def _replay(chunk):
    """Worker: re-reach states by replaying traces from the public constructor (the objects
    live through the whole trace here), compare the exact key, and evaluate the invariant on
    the replayed state as well."""
    mach = _machine
    n = 0
    bad = []
    viol = []
    for d, seed, trace in chunk:
        st = mach.seed(seed)
        step_viol = None
        try:
            if mach.step_invariant is not None:
                # the exploration judged the seed state too (queries may leave traces)
                try:
                    mach.step_invariant(st)
                except Violation as v:
                    step_viol = (v.what, v.detail)
            for a in trace:
                mach.apply(st, a, check=False)
                if mach.step_invariant is not None and step_viol is None:
                    # machines whose objects may carry state of their own (live Function
                    # handles) are also judged after every step of the replay
                    try:
                        mach.step_invariant(st)
                    except Violation as v:
                        step_viol = (v.what, v.detail)
        except Exception as e:  # noqa
            from .run import library_exception_report
            if library_exception_report(e, None) is not None:
                # valid calls only: an exception from inside the library is a finding
                viol.append((seed, trace, 'unexpected %s: %s (while the trace was replayed '
                             'from the constructor)' % (type(e).__name__, str(e)[:120]), {}))
                n += 1
            else:
                bad.append((seed, trace, 'replay raised %r' % (e,)))
            continue
        if step_viol is not None:
            viol.append((seed, trace, step_viol[0], step_viol[1]))
            n += 1
            continue
        if S.digest(mach.key(st)) != d:
            bad.append((seed, trace, 'replayed state differs'))
        else:
            try:
                mach.invariant(st)
            except Violation as v:
                viol.append((seed, trace, v.what, v.detail))
            except Exception as e:  # noqa
                viol.append((seed, trace, 'the state is malformed (invariant checker raised %s)'
                             % type(e).__name__, dict(error=str(e)[:160])))
        n += 1
    return n, bad, viol


_replay.returns_report = False


def _chunks(lst, k):
    k = max(1, k)
    return [lst[i:i + k] for i in range(0, len(lst), k)]


MAX_LAYER = int(__import__('os').environ.get('VERIF_MAX_LAYER', '1500000'))


def bfs(mach, depth, rep=None, validate='deepest', deadline=None, max_states=None):
    """Explore to `depth`. Returns dict(states, transitions, layers, validated, completed_depth)."""
    rep = rep if rep is not None else Report()
    from .run import close_pool
    close_pool()        # workers must be forked after the machine is installed
    mach.rep = rep
    _set_machine(mach)
    seen = set()
    frontier = []
    for label in mach.seed_labels():
        try:
            st = mach.seed(label)
        except Violation as v:
            rep.violation('seed:' + v.what, v.what + ' (while the starting state was built)',
                          dict(machine=mach.name, seed=label, trace=[]), **v.detail)
            continue
        except Exception as e:  # noqa
            # the seed is built by valid calls only: an exception from inside the library
            # while building it is a finding, not a harness bug
            from .run import library_exception_report
            if library_exception_report(e, None) is None:
                raise
            rep.violation('seed-exception:%s' % type(e).__name__,
                          'the library raised %s (%s) while the starting state was built by '
                          'valid calls' % (type(e).__name__, str(e)[:120]),
                          dict(machine=mach.name, seed=label, trace=[]))
            continue
        try:
            mach.invariant(st)
        except Violation as v:
            rep.violation('seed:' + v.what, v.what,
                          dict(machine=mach.name, seed=label, trace=[]), **v.detail)
            continue
        d = S.digest(mach.key(st))
        if d in seen:
            continue
        seen.add(d)
        frontier.append((d, pickle.dumps(st, pickle.HIGHEST_PROTOCOL), label, ()))
    layers = [len(frontier)]
    transitions = 0
    completed = 0
    last_layer = list(frontier)
    for dep in range(1, depth + 1):
        if not frontier:
            break
        if deadline is not None and time.time() > deadline:
            rep.caps.append(f'{mach.name}: time cap before layer {dep}; '
                            f'layers 0..{dep - 1} complete')
            break
        if max_states is not None and len(seen) > max_states:
            rep.caps.append(f'{mach.name}: state cap before layer {dep}')
            break
        items = [(b, s, t) for (_, b, s, t) in frontier]
        nchunks = max(1, min(len(items), env.NPROC * 8, max(1, len(items) // 4)))
        if len(items) > 200000:
            nchunks = len(items) // 2000
        size = (len(items) + nchunks - 1) // nchunks
        nxt = []
        overflow = False
        for out, r in pimap(_expand, _chunks(items, size)):
            rep.merge(r)
            if overflow:
                continue
            for d, blob, seed, trace in out:
                if d in seen:
                    continue
                seen.add(d)
                nxt.append((d, blob, seed, trace))
            if len(nxt) > MAX_LAYER:
                overflow = True
        if overflow:
            # memory guard: this layer is too large to keep; it was fully EXPANDED FROM
            # (every state of layer dep-1 was expanded and checked) but its states are not
            # all kept, so the search stops here
            rep.caps.append('%s: layer %d exceeds %d states (memory guard); every state of '
                            'layers 0..%d was expanded and every transition out of them checked; '
                            'layer %d itself is not expanded' % (
                                mach.name, dep, MAX_LAYER, dep - 1, dep))
            transitions = rep.counts.get('transitions', 0)
            layers.append(len(nxt))
            completed = dep
            frontier = []
            last_layer = nxt[:20000]
            break
        transitions = rep.counts.get('transitions', 0)
        frontier = nxt
        layers.append(len(nxt))
        completed = dep
        if nxt:
            last_layer = nxt
    validated = 0
    if validate and last_layer:
        items = [(d, s, t) for (d, _, s, t) in last_layer]
        nchunks = max(1, min(len(items), env.NPROC * 4))
        size = (len(items) + nchunks - 1) // nchunks
        for n, bad, viol in pmap(_replay, _chunks(items, size)):
            validated += n
            for seed, trace, what, detail in viol:
                rep.violation('replayed:' + what, what + ' (on the state replayed from the '
                              'constructor, objects alive through the whole trace)',
                              dict(machine=mach.name, seed=seed, trace=list(trace)), **detail)
            if bad:
                raise HarnessError(
                    'nondeterminism not owned: replay of a trace from the constructor '
                    'does not reach the same state: %r' % (bad[0],))
    for i, (d, blob, seed, trace) in enumerate(last_layer[:3]):
        rep.sample(dict(machine=mach.name, seed=seed, trace=list(trace)))
    return dict(states=len(seen), transitions=transitions, layers=layers,
                validated=validated, completed_depth=completed)


class Machine:
    """Base class for drivers."""
    name = 'machine'
    rep = None
    step_invariant = None     # optional: callable(state), evaluated after every replayed step

    def seed_labels(self):
        return ['fresh']

    def seed(self, label):
        raise NotImplementedError

    def actions(self, st):
        raise NotImplementedError

    def apply(self, st, action, check=True):
        raise NotImplementedError

    def invariant(self, st):
        pass

    def key(self, st):
        raise NotImplementedError

    def signature(self, v, action):
        return '%s@%s' % (v.what, action[0])

    def unexpected(self, exc, action):
        """Signature for an exception escaping `apply`; None = a legitimate refusal."""
        return 'exception:%s@%s' % (type(exc).__name__, action[0])

    def replay(self, case):
        """Re-run a recorded trace with all checks. Returns violation text or None."""
        try:
            st = self.seed(case['seed'])
        except Violation as v:
            return v.what
        except Exception as e:  # noqa
            from .run import library_exception_report
            if library_exception_report(e, None) is None:
                raise
            return 'the library raised %s while the starting state was built' % type(e).__name__
        try:
            self.invariant(st)
            for a in case['trace']:
                a = tuple(a) if isinstance(a, list) else a
                a = _tuplify(a)
                self.apply(st, a)
                self.invariant(st)
        except Violation as v:
            return v.what
        except Exception as e:  # noqa
            a = _tuplify(case['trace'][-1]) if case['trace'] else ('seed',)
            if self.unexpected(e, a) is None:
                return None
            return 'unexpected %s: %s' % (type(e).__name__, str(e)[:200])
        return None
        # (a TaskTimeout, being a BaseException, passes through to run.finish, which counts it
        # as a reproduction)


def _tuplify(x):
    if isinstance(x, list):
        return tuple(_tuplify(y) for y in x)
    return x
