"""Runner plumbing: reports, worker pool, evidence, findings, replay files."""
import hashlib
import json
import multiprocessing as mp
import os
import subprocess
import sys
import time
import traceback

from . import env

MAX_VIOLATIONS_KEPT = 40


class Report:
    """Mergeable record of what a (part of a) run covered."""

    def __init__(self):
        self.counts = {}          # name -> int (summed on merge)
        self.maxima = {}          # name -> int (max on merge)
        self.sets = {}            # name -> set (union on merge)
        self.samples = []         # a few actual cases
        self.violations = []      # dicts: signature, what, case, detail
        self.notes = []           # strings (deduplicated)
        self.caps = []            # caps hit
        self.sections = {}        # name -> dict of free-form info (later wins)

    def add(self, name, k=1):
        self.counts[name] = self.counts.get(name, 0) + k

    def max(self, name, v):
        if v > self.maxima.get(name, -1):
            self.maxima[name] = v

    def mark(self, name, item):
        self.sets.setdefault(name, set()).add(item)

    def sample(self, case, limit=6):
        if len(self.samples) < limit:
            self.samples.append(case)

    def note(self, s):
        if s not in self.notes:
            self.notes.append(s)

    def violation(self, signature, what, case, **detail):
        if len(self.violations) < MAX_VIOLATIONS_KEPT or not any(
                v['signature'] == signature for v in self.violations):
            self.violations.append(dict(
                signature=signature, what=what, case=case, detail=detail))
        self.add('violations_seen')

    def merge(self, other):
        for k, v in other.counts.items():
            self.counts[k] = self.counts.get(k, 0) + v
        for k, v in other.maxima.items():
            self.max(k, v)
        for k, v in other.sets.items():
            self.sets.setdefault(k, set()).update(v)
        for s in other.samples:
            self.sample(s, limit=12)
        for v in other.violations:
            if len(self.violations) < 4 * MAX_VIOLATIONS_KEPT:
                self.violations.append(v)
        for n in other.notes:
            self.note(n)
        for c in other.caps:
            if c not in self.caps:
                self.caps.append(c)
        self.sections.update(other.sections)
        return self


def library_exception_report(exc, item):
    """If `exc` was raised from inside the library under test (innermost frame in
    $DD_REPO/dd/), turn it into a violation report: the harness only issues calls that the
    reference model considers valid (rejections are caught where they are expected), so an
    exception escaping from library code during such a step is a finding, not a harness bug.
    Returns None for exceptions raised by harness code."""
    tb = exc.__traceback__
    last = None
    while tb is not None:
        last = tb
        tb = tb.tb_next
    if last is None:
        return None
    fn = os.path.realpath(last.tb_frame.f_code.co_filename)
    if not fn.startswith(os.path.realpath(env.REPO) + os.sep):
        return None
    rep = Report()
    where = '%s:%s' % (os.path.basename(fn), last.tb_frame.f_code.co_name)
    sig = 'library-exception:%s@%s' % (type(exc).__name__, where)
    rep.violation(sig, 'the library raised %s (%s) in %s during a step the reference model '
                  'considers valid' % (type(exc).__name__, str(exc)[:120], where),
                  dict(task=jsonable(item), sig=sig))
    return rep


class TaskTimeout(BaseException):
    """One task used more CPU time than the whole check needs on the unchanged tree: the
    library does not terminate (or has become absurdly slow) on an input of the sweep."""


TASK_CPU_LIMIT = float(os.environ.get('VERIF_TASK_CPU_LIMIT', '0') or 0)


def set_task_limit(seconds):
    global TASK_CPU_LIMIT
    if not os.environ.get('VERIF_TASK_CPU_LIMIT'):
        TASK_CPU_LIMIT = float(seconds)


def _on_timer(signum, frame):
    raise TaskTimeout('no result after %d s of CPU time' % TASK_CPU_LIMIT)


def arm_timer():
    """CPU-time watchdog of the calling process (ITIMER_PROF counts user + system time of this
    process only, so a loaded machine does not trip it).  TaskTimeout is a BaseException: the
    drivers' per-case `except Exception` clauses do not swallow it, the whole task ends."""
    if TASK_CPU_LIMIT > 0:
        import signal
        signal.signal(signal.SIGPROF, _on_timer)
        signal.setitimer(signal.ITIMER_PROF, TASK_CPU_LIMIT, 0)


def disarm_timer():
    if TASK_CPU_LIMIT > 0:
        import signal
        signal.setitimer(signal.ITIMER_PROF, 0, 0)


def _call(args):
    func, item = args
    try:
        env.scratch_dir()
        arm_timer()
        try:
            return ('ok', func(item))
        finally:
            disarm_timer()
    except TaskTimeout as e:
        disarm_timer()
        if getattr(func, 'returns_report', True):
            rep = Report()
            sig = 'task-timeout'
            rep.violation(sig, 'a task of the sweep did not finish: %s (every task needs a small '
                          'fraction of that on the unchanged tree): the library does not '
                          'terminate on one of its inputs' % e,
                          dict(task=jsonable(item), sig=sig))
            return ('ok', rep)
        return ('err', 'TaskTimeout in a worker that does not return a report: %s' % e)
    except BaseException as e:  # noqa
        from .oracle import Violation as _V
        if getattr(func, 'returns_report', True) and isinstance(e, _V):
            # a violation noticed while a task was still setting up (building its operands)
            rep = Report()
            sig = 'setup:' + e.what
            rep.violation(sig, e.what + ' (while the operands of a task were being built)',
                          dict(task=jsonable(item), sig=sig), **e.detail)
            return ('ok', rep)
        if getattr(func, 'returns_report', True) and isinstance(e, Exception):
            rep = library_exception_report(e, item)
            if rep is not None:
                return ('ok', rep)
        return ('err', traceback.format_exc())


_pool = None


def pool():
    global _pool
    if _pool is None:
        ctx = mp.get_context('fork')
        _pool = ctx.Pool(env.NPROC)
    return _pool


def close_pool():
    global _pool
    if _pool is not None:
        _pool.close()
        _pool.join()
        _pool = None


def pmap(func, items, chunksize=1):
    """Ordered parallel map; a worker exception is a harness error."""
    items = list(items)
    if not items:
        return []
    if env.NPROC <= 1 or len(items) == 1:
        out = [_call((func, it)) for it in items]
    else:
        out = pool().map(_call, [(func, it) for it in items], chunksize)
    res = []
    for tag, val in out:
        if tag == 'err':
            raise HarnessError('worker failed:\n' + val)
        res.append(val)
    return res


def pimap(func, items):
    """Ordered, STREAMING parallel map (results are consumed one by one, so the master
    never holds all outputs at once)."""
    items = list(items)
    if env.NPROC <= 1 or len(items) <= 1:
        for it in items:
            tag, val = _call((func, it))
            if tag == 'err':
                raise HarnessError('worker failed:\n' + val)
            yield val
        return
    for tag, val in pool().imap(_call, [(func, it) for it in items], 1):
        if tag == 'err':
            raise HarnessError('worker failed:\n' + val)
        yield val


def pmerge(func, items, into=None, chunksize=1):
    rep = into if into is not None else Report()
    for r in pmap(func, items, chunksize):
        rep.merge(r)
    return rep


class HarnessError(Exception):
    pass


# ---------------------------------------------------------------- findings

def load_findings():
    p = os.path.join(env.VERIF_DIR, 'known_findings.json')
    if not os.path.exists(p):
        return dict(known=[], fixed=[])
    with open(p) as f:
        return json.load(f)


def jsonable(x):
    if isinstance(x, dict):
        return {str(k): jsonable(v) for k, v in x.items()}
    if isinstance(x, (list, tuple)):
        return [jsonable(v) for v in x]
    if isinstance(x, (set, frozenset)):
        return sorted((jsonable(v) for v in x), key=repr)
    if isinstance(x, (int, float, str, bool)) or x is None:
        return x
    return repr(x)


def write_replay(prop, v, tier):
    os.makedirs(os.path.join(env.VERIF_DIR, 'replays'), exist_ok=True)
    body = dict(
        property=prop, signature=v['signature'], what=v['what'],
        case=jsonable(v['case']), detail=jsonable(v['detail']),
        seed=env.SEED, hashseed=os.environ.get('PYTHONHASHSEED'),
        tier=tier,
        how_to_replay=f'./check {prop} --replay <this file>')
    h = hashlib.blake2b(json.dumps(body, sort_keys=True).encode(),
                        digest_size=6).hexdigest()
    path = os.path.join(env.VERIF_DIR, 'replays', f'{prop}-{h}.json')
    with open(path, 'w') as f:
        json.dump(body, f, indent=1, sort_keys=True)
    return path


def finish(prop, level, tier, rep, t0, coverage, assumptions, replay_fn=None):
    """Write evidence, print verdict lines, return exit code."""
    findings = load_findings()
    known = [k for k in findings.get('known', []) if k['property'] == prop]
    # de-duplicate violations by signature, keep first
    by_sig = {}
    for v in rep.violations:
        by_sig.setdefault(v['signature'], v)
    new, matched = [], {}
    for sig, v in by_sig.items():
        k = next((k for k in known if k['signature'] == sig), None)
        if k is not None:
            matched[sig] = (k, v)
        else:
            new.append(v)
    # confirm each new violation by an independent replay (twice) if we can
    confirmed = []
    unreproduced = []
    for v in new:
        if replay_fn is not None:
            try:
                arm_timer()
                try:
                    r1 = replay_fn(v['case'])
                finally:
                    disarm_timer()
                arm_timer()
                try:
                    r2 = replay_fn(v['case'])
                finally:
                    disarm_timer()
            except TaskTimeout as e:
                # the replay itself runs into the limit: the non-termination reproduces
                disarm_timer()
                r1 = r2 = 'no result within the CPU limit (%s)' % e
            except Exception:  # noqa
                raise HarnessError('replay crashed for %r:\n%s' % (
                    v['signature'], traceback.format_exc()))
            if bool(r1) != bool(r2):
                raise HarnessError(
                    'nondeterminism not owned: replays disagree for %r' % (v['signature'],))
            if not r1:
                # not believed: it may be the consequence of an EARLIER case through state
                # that the library keeps outside the manager (a module-level singleton).
                # Only what reproduces from a fresh start is reported.
                unreproduced.append(v)
                continue
        confirmed.append(v)
    if unreproduced and not confirmed:
        v = unreproduced[0]
        raise HarnessError(
            'violation found by exploration does not reproduce in replay: %r / %r' % (
                v['signature'], v['what']))
    if unreproduced:
        rep.note('%d further observation(s) did not reproduce from a fresh start and are not '
                 'reported: %s' % (len(unreproduced),
                                   '; '.join(v['signature'] for v in unreproduced[:5])))
    paths = []
    for v in confirmed:
        paths.append(write_replay(prop, v, tier))
    cov = dict(coverage)
    cov.setdefault('samples', jsonable(rep.samples[:8]))
    if rep.caps:
        cov['caps_hit'] = rep.caps
    if rep.notes:
        cov['notes'] = rep.notes
    cov['counters'] = dict(sorted(rep.counts.items()))
    if rep.maxima:
        cov['maxima'] = dict(sorted(rep.maxima.items()))
    for k, s in rep.sets.items():
        cov.setdefault('distinct_' + k, len(s))
    for k, s in rep.sections.items():
        cov.setdefault(k, jsonable(s))
    cov['known_findings_observed'] = sorted(matched)
    ev = dict(
        property_id=prop, tier=tier, seed=env.SEED, level=level,
        coverage=jsonable(cov), assumptions=list(assumptions),
        wall_s=round(time.time() - t0, 2), violations=len(confirmed))
    try:
        validate_evidence(ev)
    except HarnessError:
        # vacuous coverage is a harness error only if nothing was found: when (almost) every
        # case failed, the counters of successful evaluations are naturally empty
        if not confirmed:
            raise
    # runs against a MODIFIED copy of the library (DD_REPO set by the tools that apply mutants
    # and seeds) must not overwrite the evidence of the real tree
    evdir = os.environ.get('VERIF_EVIDENCE_DIR') or os.path.join(env.VERIF_DIR, 'evidence')
    os.makedirs(evdir, exist_ok=True)
    p = os.path.join(evdir, f'{prop}.json')
    with open(p + '.tmp', 'w') as f:
        json.dump(ev, f, indent=1, sort_keys=True)
    os.replace(p + '.tmp', p)
    for sig, (k, v) in sorted(matched.items()):
        print(f'KNOWN-FINDING: property={prop} {k["what"]} [signature={sig}]')
    for v, path in zip(confirmed, paths):
        print(f'VIOLATION property={prop} replay={path}')
        print(f'  what: {v["what"]}')
        print(f'  case: {json.dumps(jsonable(v["case"]))[:400]}')
    summ = {k: cov[k] for k in ('states', 'transitions', 'evaluations',
                                'distinct_nontrivial',
                                'traces_validated_against_impl') if k in cov}
    print(f'{prop} {tier}: {"FAIL" if confirmed else "ok"} {summ} '
          f'wall={ev["wall_s"]}s')
    sys.stdout.flush()
    return 1 if confirmed else 0


def validate_evidence(ev):
    """Minimal structural validation (the full schema is applied by `./check --validate`)."""
    cov = ev['coverage']
    lvl = ev['level']
    if lvl == 'model_checking' and all(
            k in cov for k in ('states', 'transitions',
                               'traces_validated_against_impl', 'samples')):
        if cov['states'] < 1 or cov['transitions'] < 1 or not cov['samples']:
            raise HarnessError('evidence: empty model-checking coverage')
        return
    for k in ('evaluations', 'distinct_nontrivial', 'rule', 'samples'):
        if k not in cov:
            raise HarnessError(f'evidence lacks {k}')
    if cov['evaluations'] < 1 or cov['distinct_nontrivial'] < 2 or not cov['samples']:
        raise HarnessError('evidence: vacuous coverage %r' % (
            {k: cov[k] for k in ('evaluations', 'distinct_nontrivial')},))


def schema_validate(path):
    """Validate an evidence file against the official schema with python3-vt (if present)."""
    schema = '/root/.vp/EVIDENCE.schema.json'
    if not os.path.exists(schema):
        schema = os.path.join(env.VERIF_DIR, 'schemas', 'EVIDENCE.schema.json')
    code = ('import json,sys,jsonschema;'
            'jsonschema.validate(json.load(open(sys.argv[1])),json.load(open(sys.argv[2])))')
    try:
        r = subprocess.run(['python3-vt', '-c', code, path, schema],
                           capture_output=True, text=True, timeout=60)
    except (OSError, subprocess.TimeoutExpired):
        return None
    return r.returncode == 0, r.stderr[-600:]
