"""Quiet manager subclasses, cloning, exact state keys."""
import copy
import hashlib
import pickle
import re

from . import env  # noqa: F401
import dd.bdd
import dd.autoref


class QBDD(dd.bdd.BDD):
    """dd.bdd.BDD with the shutdown assertion silenced (all other code inherited)."""

    def __del__(self):
        pass


def new_bdd(levels=None):
    return QBDD(levels)


def autoref_around(raw):
    """A dd.autoref.BDD (built by its real constructor) that manages the given raw manager."""
    b = dd.autoref.BDD()
    b._bdd = raw
    b.vars = raw.vars
    return b


def new_autoref(levels=None):
    """dd.autoref.BDD whose underlying manager is quiet at shutdown."""
    return autoref_around(QBDD(levels))


def shutdown_check(raw):
    """Run the library's own shutdown check on a raw manager; returns None or the error."""
    try:
        dd.bdd.BDD.__del__(raw)
    except AssertionError as e:
        return 'AssertionError: ' + str(e)[:200]
    return None


def clone(m):
    """Attribute-by-attribute copy preserving dict insertion order."""
    c = m.__class__.__new__(m.__class__)
    d = c.__dict__
    for k, v in m.__dict__.items():
        t = type(v)
        if t is dict:
            d[k] = dict(v)
        elif t is set:
            d[k] = set(v)
        elif t in (int, bool, str, float, type(None), tuple, frozenset):
            d[k] = v
        else:
            d[k] = copy.deepcopy(v)
    return c


_ADDRESS = re.compile(r' at 0x[0-9a-fA-F]+')


def _canon(v):
    t = type(v)
    if t is dict:
        return ('D',) + tuple((_canon(k), _canon(x)) for k, x in v.items())
    if t is set or t is frozenset:
        return ('S',) + tuple(sorted((_canon(x) for x in v), key=repr))
    if t is list or t is tuple:
        return ('L',) + tuple(_canon(x) for x in v)
    if t in (int, bool, str, float, type(None)):
        return v
    # any other object (a bound method kept as an attribute, a helper object): its repr without
    # the memory address, which differs from one construction of the same state to the next
    return ('R', _ADDRESS.sub('', repr(v)))


def key(m, extra=None):
    """Exact key: every instance attribute, dicts in insertion order."""
    return (tuple((k, _canon(v)) for k, v in sorted(m.__dict__.items())), _canon(extra))


def digest(k):
    return hashlib.blake2b(repr(k).encode(), digest_size=16).digest()


def freeze(m):
    return pickle.dumps(m.__dict__, protocol=pickle.HIGHEST_PROTOCOL)


def thaw(cls, blob):
    c = cls.__new__(cls)
    c.__dict__.update(pickle.loads(blob))
    return c
