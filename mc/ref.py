"""Reference model: Boolean functions as truth-table bit masks, indexed by NAME.

A function over the universe U = (n0, ..., n{m-1}) is an int; bit `a` of it is
the value under the assignment in which name U[i] has value bit i of `a`.
Shares no code with dd.
"""
import itertools


class Universe:
    def __init__(self, names):
        self.names = tuple(names)
        self.m = m = len(self.names)
        self.N = N = 1 << m
        self.full = (1 << N) - 1
        self.idx = {n: i for i, n in enumerate(self.names)}
        self.X = []
        for i in range(m):
            # bit a of x is bit i of a: blocks of 2**i zeros then 2**i ones, repeated
            s = 1 << i
            x = ((1 << s) - 1) << s
            width = 2 * s
            while width < N:
                x |= x << width
                width *= 2
            if m <= 8:      # the definition, written out
                assert x == sum(1 << a for a in range(N) if (a >> i) & 1)
            self.X.append(x)
        self.true = self.full
        self.false = 0

    # --- constants and literals
    def var(self, name):
        return self.X[self.idx[name]]

    def neg(self, f):
        return self.full ^ f

    # --- connectives
    def ite(self, g, u, v):
        return (g & u) | ((self.full ^ g) & v)

    def op(self, name, u, v=None, w=None):
        F = self.full
        if name == 'not':
            return F ^ u
        if name == 'and':
            return u & v
        if name == 'or':
            return u | v
        if name == 'xor':
            return u ^ v
        if name == 'implies':
            return (F ^ u) | v
        if name == 'equiv':
            return F ^ (u ^ v)
        if name == 'diff':
            return u & (F ^ v)
        if name == 'ite':
            return self.ite(u, v, w)
        raise KeyError(name)

    # --- cofactors and quantifiers
    def cof(self, f, name, val):
        i = self.idx[name]
        s = 1 << i
        x = self.X[i]
        if val:
            hi = (f & x) >> s
            return hi | (hi << s)
        lo = f & (self.full ^ x)
        return lo | (lo << s)

    def exists(self, f, names):
        for n in names:
            f = self.cof(f, n, 0) | self.cof(f, n, 1)
        return f

    def forall(self, f, names):
        for n in names:
            f = self.cof(f, n, 0) & self.cof(f, n, 1)
        return f

    def quantify(self, f, names, forall):
        return self.forall(f, names) if forall else self.exists(f, names)

    def restrict(self, f, asg):
        for n, val in asg.items():
            f = self.cof(f, n, 1 if val else 0)
        return f

    def depends(self, f, name):
        return self.cof(f, name, 0) != self.cof(f, name, 1)

    def support(self, f):
        return {n for n in self.names if self.depends(f, n)}

    # --- substitution (simultaneous)
    def compose(self, f, sub):
        """sub: name -> mask; all replaced at once."""
        subs = [(self.idx[n], g) for n, g in sub.items()]
        if not subs:
            return f
        r = 0
        for a in range(self.N):
            b = a
            for i, g in subs:
                if (g >> a) & 1:
                    b |= (1 << i)
                else:
                    b &= ~(1 << i)
            if (f >> b) & 1:
                r |= 1 << a
        return r

    def rename(self, f, ren):
        return self.compose(f, {o: self.var(n) for o, n in ren.items()})

    # --- models
    def count(self, f):
        return bin(f).count('1')

    def value(self, f, asg):
        a = 0
        for n, v in asg.items():
            if v:
                a |= 1 << self.idx[n]
        return (f >> a) & 1

    def assignments(self):
        for a in range(self.N):
            yield a, {n: bool((a >> i) & 1) for i, n in enumerate(self.names)}

    def cube_mask(self, partial):
        """Mask of all total assignments extending `partial` (name->bool)."""
        r = self.full
        for n, v in partial.items():
            x = self.var(n)
            r &= x if v else (self.full ^ x)
        return r

    # --- enumeration of all functions over a subset of names
    def lift(self, table, names):
        """`table`: int truth table over `names` (bit j, bit i of j = names[i]) -> mask over U."""
        k = len(names)
        pos = [self.idx[n] for n in names]
        r = 0
        for a in range(self.N):
            j = 0
            for t in range(k):
                if (a >> pos[t]) & 1:
                    j |= 1 << t
            if (table >> j) & 1:
                r |= 1 << a
        return r

    def all_functions(self, names=None):
        names = self.names if names is None else tuple(names)
        if tuple(names) == self.names:
            return range(1 << self.N)
        return [self.lift(t, names) for t in range(1 << (1 << len(names)))]

    def fmt(self, f):
        return format(f, '0%db' % self.N)


def permutations_as_orders(names):
    """All assignments of names to levels, as dicts name->level."""
    for p in itertools.permutations(range(len(names))):
        yield dict(zip(names, p))


NAME_POOLS = [
    ('x', 'y', 'z', 'w', 'v', 'u'),
    ('a', 'b', 'c', 'd', 'e', 'f'),
    ('p', 'q', 'r', 's', 't', 'o'),
    ('x1', 'x2', 'x3', 'x4', 'x5', 'x6'),
    ('foo', 'bar', 'baz', 'qux', 'quux', 'corge'),
]


def names_for(n, seed=0):
    pool = NAME_POOLS[seed % len(NAME_POOLS)]
    return pool[:n]
