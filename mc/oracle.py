"""Independent oracle for dd.bdd.BDD managers: denotation and invariants.

Never calls `assert_consistent` nor any operation under test. Reads the node
table, the unique table and the counts.
"""


class Violation(Exception):
    def __init__(self, what, **detail):
        super().__init__(what)
        self.what = what
        self.detail = detail


def raw(bdd):
    """The underlying dd.bdd.BDD of a manager (autoref wraps one)."""
    return getattr(bdd, '_bdd', bdd)


def node_of(u):
    """Signed integer of a reference (int or autoref Function)."""
    if isinstance(u, int):
        return u
    return u.node


class Den:
    """Denotation of references of one manager, by variable NAME, over a universe."""

    def __init__(self, bdd, U):
        self.bdd = raw(bdd)
        self.U = U
        self.memo = {}

    def reset(self):
        self.memo = {}

    def __call__(self, u):
        u = node_of(u)
        m = self._node(abs(u))
        return (self.U.full ^ m) if u < 0 else m

    def _node(self, r):
        memo = self.memo
        if r in memo:
            return memo[r]
        bdd = self.bdd
        U = self.U
        # iterative post-order to survive deep diagrams
        stack = [r]
        succ = bdd._succ
        while stack:
            n = stack[-1]
            if n in memo:
                stack.pop()
                continue
            if n not in succ:
                raise Violation('reference to a node that is not stored', node=n)
            i, v, w = succ[n]
            if v is None or w is None:
                if n != 1:
                    raise Violation('terminal other than node 1', node=n)
                memo[n] = U.full
                stack.pop()
                continue
            av, aw = abs(v), abs(w)
            pending = False
            if av not in memo:
                stack.append(av)
                pending = True
            if aw not in memo:
                stack.append(aw)
                pending = True
            if pending:
                if len(stack) > 100000:
                    raise Violation('cycle in node table', node=n)
                continue
            name = bdd.var_at_level(i)
            if name not in U.idx:
                raise Violation('a reachable node is labelled with a variable that none of the '
                                'functions involved mentions', node=n, variable=repr(name))
            x = U.var(name)
            lo = memo[av]
            if v < 0:
                lo = U.full ^ lo
            hi = memo[aw]
            if w < 0:
                hi = U.full ^ hi
            memo[n] = (x & hi) | ((U.full ^ x) & lo)
            stack.pop()
        return memo[r]


def check_order(bdd):
    """The four views of the order describe one bijection names <-> 0..n-1."""
    b = raw(bdd)
    vars_ = dict(b.vars)
    n = len(vars_)
    if sorted(vars_.values()) != list(range(n)):
        raise Violation('vars is not a bijection onto 0..n-1', vars=vars_)
    vl = b.var_levels
    if dict(vl) != vars_:
        raise Violation('var_levels differs from vars', vars=vars_, var_levels=dict(vl))
    for name, lvl in vars_.items():
        try:
            got = b.var_at_level(lvl)
        except Exception as e:  # noqa
            raise Violation('var_at_level fails for a used level', level=lvl, error=repr(e))
        if got != name:
            raise Violation('var_at_level disagrees with vars', level=lvl, name=name, got=got)
        if b.level_of_var(name) != lvl:
            raise Violation('level_of_var disagrees with vars', name=name)
    for extra in (n, n + 1, -1):
        try:
            got = b.var_at_level(extra)
        except Exception:
            continue
        if got is not None:
            raise Violation('var_at_level names a variable at an unused level',
                            level=extra, got=got)
    return n


def check(bdd, ext=None, U=None, den=None, exact_counts=True, semantic=True):
    """Full invariant check.

    ext: dict node(abs) -> number of external references the harness holds
         (None: counts only checked for >= in-degree).
    Returns dict of measurements. Raises Violation.
    """
    b = raw(bdd)
    n = check_order(b)
    succ = getattr(b, '_succ', None)
    pred = getattr(b, '_pred', None)
    ref = getattr(b, '_ref', None)
    if succ is None:
        return dict(observable=False)
    if 1 not in succ:
        raise Violation('terminal node 1 missing')
    t = succ[1]
    if t[0] != n or t[1] is not None or t[2] is not None:
        raise Violation('terminal not at level n', terminal=t, n=n)
    indeg = {u: 0 for u in succ}
    triples = {}
    for u, (i, v, w) in succ.items():
        if u == 1:
            continue
        if not isinstance(u, int) or u <= 1:
            raise Violation('bad node number', node=u)
        if v is None or w is None:
            raise Violation('second terminal', node=u)
        if not (0 <= i < n):
            raise Violation('node level out of range', node=u, level=i)
        if w <= 0:
            raise Violation('complemented (or zero) high edge', node=u, high=w)
        if v == 0:
            raise Violation('zero low edge', node=u)
        if v == w:
            raise Violation('node with two identical children', node=u)
        for c in (abs(v), w):
            if c not in succ:
                raise Violation('child not stored', node=u, child=c)
            if not (succ[c][0] > i):
                raise Violation('levels do not increase along edge', node=u, child=c)
            indeg[c] += 1
        key = (i, v, w)
        if key in triples:
            raise Violation('two nodes with same level and children',
                            nodes=[triples[key], u], triple=key)
        triples[key] = u
    if pred is not None:
        if len(pred) != len(succ):
            raise Violation('unique table size differs from node table',
                            pred=len(pred), succ=len(succ))
        for u, tr in succ.items():
            if pred.get(tr) != u:
                raise Violation('unique table is not the inverse of the node table',
                                node=u, triple=tr, got=pred.get(tr))
    if ref is not None:
        if set(ref) != set(succ):
            raise Violation('set of counted nodes differs from stored nodes',
                            only_ref=sorted(set(ref) - set(succ)),
                            only_succ=sorted(set(succ) - set(ref)))
        for u in succ:
            want = indeg[u]
            if u == 1:
                want += 1
            if ext is not None:
                want += ext.get(u, 0)
                if exact_counts and ref[u] != want:
                    raise Violation('reference count differs from in-degree + external',
                                    node=u, stored=ref[u], expected=want,
                                    indegree=indeg[u], external=ext.get(u, 0))
            if ref[u] < want and ext is None:
                raise Violation('reference count below in-degree', node=u,
                                stored=ref[u], indegree=indeg[u])
    out = dict(observable=True, nodes=len(succ))
    # the computed table (ite cache): only stored nodes, only correct entries
    tab = getattr(b, '_ite_table', None)
    entries = []
    if isinstance(tab, dict):
        for key, w in tab.items():
            if not (isinstance(key, tuple) and len(key) == 3 and isinstance(w, int) and
                    all(isinstance(x, int) for x in key)):
                entries = None      # another layout: not interpreted
                break
            for x in key + (w,):
                if abs(x) not in succ:
                    raise Violation('the computed table mentions a node that is not stored',
                                    entry=[list(key), w], node=abs(x))
            entries.append((key, w))
    if semantic and U is not None:
        d = den if den is not None else Den(b, U)
        for (g_, u_, v_), w_ in entries or ():
            mg, mu, mv, mw = d(g_), d(u_), d(v_), d(w_)
            if mw != (mg & mu) | ((U.full ^ mg) & mv):
                raise Violation('the computed table holds an entry whose value is not '
                                'ite(g, u, v)', entry=[[g_, u_, v_], w_])
        seen = {}
        for u in succ:
            m = d(u)
            c = U.full ^ m
            if m in seen or c in seen:
                raise Violation('two stored nodes denote the same function up to complement',
                                nodes=[seen.get(m, seen.get(c)), u])
            seen[m] = u
    return out


def reachable(bdd, roots):
    b = raw(bdd)
    succ = b._succ
    seen = {1}
    stack = [abs(node_of(r)) for r in roots]
    while stack:
        u = stack.pop()
        if u in seen:
            continue
        if u not in succ:
            raise Violation('held reference reaches a node that is not stored', node=u)
        seen.add(u)
        i, v, w = succ[u]
        if v is not None:
            stack.append(abs(v))
            stack.append(abs(w))
    return seen


def observe_queries(bdd, U, r, mask):
    """Pure queries on a held reference, compared with the model.  Called in EVERY state of the
    history machines, so that an answer remembered in one state and served in a later one
    (after a swap, a collection, a declaration ...) is noticed."""
    b = raw(bdd)
    sup = U.support(mask)
    got = b.support(r)
    if set(got) != sup:
        raise Violation('support(u) is not the set of variables u depends on (in a history)',
                        got=sorted(got), want=sorted(sup))
    lv = b.support(r, as_levels=True)
    if {b.var_at_level(i) for i in lv} != sup:
        raise Violation('support(u, as_levels=True) is wrong (in a history)')
    nm = U.count(mask) >> (U.m - len(sup))
    if b.count(r) != nm:
        raise Violation('count(u) is not the number of models over the support (in a history)',
                        got=b.count(r), want=nm)
    if b.count(r, len(sup) + 1) != 2 * nm:
        raise Violation('count(u, n) is wrong (in a history)')
    p = b.pick(r)
    if (p is None) != (mask == 0):
        raise Violation('pick(u) is None exactly for false is violated (in a history)')
    if p is not None and (U.cube_mask(p) & ~mask & U.full or set(p) != sup):
        raise Violation('pick(u) is not a model over the support (in a history)', pick=p)
    if len(b.descendants([r])) != len(reachable(b, [r])):
        raise Violation('descendants([u]) is not the reachable set (in a history)')
