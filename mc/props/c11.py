"""C11 — copying between managers preserves the function by variable name."""
from .. import env, run, sweep
from .. import oracle as O
from .. import state as S
from ..oracle import Violation
from ..ref import Universe, names_for

import dd.bdd as _bdd
import dd.autoref as _autoref
import dd._copy as _copy

PROP = 'C11'
TARGETS = ('plain', 'extra-top', 'extra-mid', 'extra-bot', 'populated', 'collected')


def _target(kind, torder, U, names):
    seq = sorted(torder, key=torder.get)
    if kind == 'extra-top':
        seq = ['_e'] + seq
    elif kind == 'extra-mid':
        seq = seq[:1] + ['_e'] + seq[1:2] + ['_g'] + seq[2:]
    elif kind == 'extra-bot':
        seq = seq + ['_e']
    t = S.new_autoref({v: i for i, v in enumerate(seq)})
    held = []
    if kind in ('populated', 'collected'):
        b = sweep.Builder(t, U)
        two = names[:2]
        for f in U.all_functions(two):
            held.append((t._add_int(b.verified(f)), f))
        if kind == 'collected':
            held = held[::2]
            env.settle()
            t.collect_garbage()
    return t, held


def task(t):
    _, n, soi, toi, tkind, si, ns, focus = t
    rep = run.Report()
    rec = sweep.Rec(rep)
    names = names_for(n, env.SEED)
    U = Universe(names + ('_e', '_g'))
    ords = sweep.orders(names)
    soi, hist = sweep.split_oi(soi)
    sorder, torder = ords[soi], ords[toi]
    masks = U.all_functions(names)
    if hist:
        # a source manager with a history (numbers re-used / nodes rewritten in place)
        try:
            src, fn = sweep.make_history(hist, sorder, U, masks, auto=True)
        except Violation as v:
            rec('context:' + v.what, v.what, dict(task=t))
            return rep
        refs = {f: h.node for f, h in fn.items()}
    else:
        src = S.new_autoref(sorder)
        refs, b = sweep.build_all(src, U, masks, hold=False)
        fn = {f: src._add_int(r) for f, r in refs.items()}
    sraw = src._bdd
    tgt, held = _target(tkind, torder, U, names)
    traw = tgt._bdd
    fs = sorted(refs)
    mine = sweep.shard(fs, ns)[si]
    key0 = S.key(sraw)
    shared = {}
    got_all = []
    for k, f in enumerate(mine):
        if focus is not None and f != focus:
            continue
        u = fn[f]
        case = dict(task=t[:-1] + (f,), u=U.fmt(f), src=sweep.order_str(sorder),
                    tgt=sweep.order_str(torder), target=tkind)
        try:
            den = O.Den(traw, U)
            results = [
                ('autoref.BDD.copy', src.copy(u, tgt)),
                ('bdd.BDD.copy', sraw.copy(u.node, traw)),
                ('bdd.copy_bdd', _bdd.copy_bdd(u.node, sraw, traw)),
                ('autoref.copy_bdd', _autoref.copy_bdd(u, tgt)),
                ('_copy.copy_bdd', _copy.copy_bdd(u, tgt)),
                ('_copy.copy_bdd shared memo', _copy.copy_bdd(u, tgt, shared)),
            ]
            g = fs[(k * 37 + 11) % len(fs)]
            # `roots` is any iterable: the container shape rotates with the function
            trio = [u, fn[g], ~u]
            shape = ('list', 'tuple', 'generator', 'map', 'dict-values', 'iterator')[k % 6]
            shaped = dict(
                list=lambda: list(trio), tuple=lambda: tuple(trio),
                generator=lambda: (x_ for x_ in trio), map=lambda: map(lambda x_: x_, trio),
                iterator=lambda: iter(trio))
            shaped['dict-values'] = lambda: dict(enumerate(trio)).values()
            both = _copy.copy_bdds_from(shaped[shape](), tgt)
            case['roots_as'] = shape
            if len(both) != 3:
                rec('wrong:copy_bdds_from-length', 'copy_bdds_from returned another number of '
                    'references than it was given roots', case)
                both = list(both) + [tgt.false] * 3
            results.append(('copy_bdds_from[0]', both[0]))
            trio = shaped = None
            first = None
            for how, r in results:
                rep.add('evaluations')
                got = den(r)
                if got != f:
                    rec('wrong:' + how.split('[')[0].split(' ')[0],
                        '%s: the copy denotes another function' % how, case,
                        got=U.fmt(got), want=U.fmt(f))
                rn = O.node_of(r)
                if first is None:
                    first = rn
                elif rn != first:
                    rec('noncanonical:' + how, 'two copies of one function are different '
                        'references in the target', case)
            if den(both[1]) != g or den(both[2]) != U.full ^ f:
                rec('wrong:copy_bdds_from', 'copy_bdds_from: a later root denotes another '
                    'function', case)
            if f not in (0, U.full):
                rep.add('nontrivial', len(results))
            got_all.append((results[0][1], f))
            results = both = r = None
        except Violation as e:
            rec('broken:' + e.what, e.what, case, **e.detail)
        except Exception as e:  # noqa
            rec('exception:' + type(e).__name__, 'raised %r' % (e,), case)
        if len(got_all) > 24:
            got_all = got_all[-8:]
            # the receiving manager collects in the middle of the series: whatever the shared
            # memo of the library remembers must stay alive (or be forgotten), the numbers freed
            # here are re-used by the following copies
            env.settle()
            tgt.collect_garbage()
    # target canonical with exact counts; functions already there intact; source untouched
    env.settle()
    try:
        # (the shared memo is the library's: whatever it stores, only Function objects hold
        # references)
        live = [h for h, _ in held] + [h for h, _ in got_all] + [
            x for x in shared.values() if hasattr(x, 'node')]
        ext = {}
        for h in live:
            ext[abs(h.node)] = ext.get(abs(h.node), 0) + 1
        den = O.Den(traw, U)
        O.check(tgt, ext, U, den)
        for h, f in held + got_all:
            if den(h) != f:
                raise Violation('a function held in the target changed')
        if S.key(sraw) != key0:
            raise Violation('the source manager was modified by copying')
    except Violation as e:
        rec('after:' + e.what, e.what, dict(task=t), **e.detail)
    if si == 0 and focus is None:
        rep.sample(dict(src=sweep.order_str(sorder), tgt=sweep.order_str(torder), target=tkind,
                        u=U.fmt(fs[len(fs) // 3]),
                        routes=['autoref.BDD.copy', 'bdd.BDD.copy', 'bdd.copy_bdd',
                                'autoref.copy_bdd', '_copy.copy_bdd', 'shared memo',
                                'copy_bdds_from']))
    return rep


def task_vars(t):
    """copy_vars from every order into an empty manager and into a compatible prefix."""
    _, n, _f = t
    rep = run.Report()
    rec = sweep.Rec(rep)
    names = names_for(n, env.SEED)
    for order in sweep.orders(names):
        seq = sorted(order, key=order.get)
        for k in range(n + 1):
            for auto in (False, True):
                case = dict(task=t, order=sweep.order_str(order), prefix=k, autoref=auto)
                try:
                    if auto:
                        s = S.new_autoref(order)
                        d = S.new_autoref({v: i for i, v in enumerate(seq[:k])})
                        _autoref.copy_vars(s, d)
                    else:
                        s = S.new_bdd(order)
                        d = S.new_bdd({v: i for i, v in enumerate(seq[:k])})
                        _copy.copy_vars(s, d)
                    rep.add('evaluations')
                    if k < n:
                        rep.add('nontrivial')
                    if dict(d.vars) != dict(order):
                        rec('copy_vars', 'copy_vars does not reproduce names and levels', case)
                    O.check_order(d)
                    O.check(d, {}, None)
                except Violation as e:
                    rec('copy_vars-broken:' + e.what, e.what, case)
                except Exception as e:  # noqa
                    rec('copy_vars-exception:' + type(e).__name__, 'raised %r' % (e,), case)
    # every target that already holds variables: every arrangement of every subset of the
    # source's names and one foreign name. A call that returns must have reproduced names
    # and levels (and moved nothing the target had); where that is possible by plain
    # declaration in the source's level order it must succeed.
    import itertools as _it
    pool = tuple(names) + ('q_' + names[0],)
    targets = [p_ for k in range(len(pool) + 1) for p_ in _it.permutations(pool, k)]
    for order in sweep.orders(names):
        for tg in targets:
            for auto in (False, True):
                before = {v: i for i, v in enumerate(tg)}
                case = dict(task=t, order=sweep.order_str(order), target=list(tg), autoref=auto)
                raised = None
                try:
                    if auto:
                        s_ = S.new_autoref(order)
                        d = S.new_autoref(dict(before))
                        call = _autoref.copy_vars
                    else:
                        s_ = S.new_bdd(order)
                        d = S.new_bdd(dict(before))
                        call = _copy.copy_vars
                    try:
                        call(s_, d)
                    except Exception as e:  # noqa
                        raised = type(e).__name__
                        del e
                    rep.add('evaluations')
                    rep.add('nontrivial')
                    compatible = all(
                        before.get(v, l) == l and (v in before or l not in before.values())
                        for v, l in order.items())
                    union = dict(before, **order)
                    contiguous = sorted(union.values()) == list(range(len(union)))
                    if raised is None:
                        rep.add('partial_targets_accepted')
                        if any(d.vars.get(v) != l for v, l in order.items()):
                            rec('copy_vars-partial',
                                'copy_vars returned although names and levels are not those '
                                'of the source', case, got=dict(d.vars))
                        elif any(d.vars.get(v) != l for v, l in before.items()):
                            rec('copy_vars-moved',
                                'copy_vars moved a variable the target already had', case,
                                got=dict(d.vars))
                    else:
                        rep.add('partial_targets_refused')
                        if compatible and contiguous and set(before) <= set(order) and all(
                                before[v] == order[v] for v in before) and sorted(
                                before.values()) == list(range(len(before))) and raised:
                            # the target is a prefix-compatible part of the source order
                            if all(order[v] < len(before) for v in before):
                                rec('copy_vars-refused',
                                    'copy_vars refused a target that is a prefix of the source '
                                    'order', case, exception=raised)
                except Violation as e:
                    rec('copy_vars-broken:' + e.what, e.what, case)
    rep.sample(dict(kind='copy_vars', orders='all', prefixes='0..n',
                    targets='every arrangement of every subset of the names + 1 foreign name'))
    return rep


def task_wide(t):
    """Functions with small supports copied between WIDE managers (12 declared variables) whose
    orders differ (reversed / interleaved): every 2- and 3-subset of the source levels."""
    import itertools
    _, nvars, k, tperm, si, ns, focus = t
    rep = run.Report()
    rec = sweep.Rec(rep)
    src, decl = sweep.wide_manager(nvars, env.SEED)
    if tperm == 'rev':
        tseq = list(reversed(decl))
    else:
        tseq = decl[::2] + decl[1::2][::-1]
    traw = S.new_bdd({v: i for i, v in enumerate(tseq)})
    tgt = S.autoref_around(traw)
    asrc = S.autoref_around(src)
    mine = sweep.shard(sweep.wide_subsets(nvars, k), ns)[si]
    for lv in mine:
        names = tuple(decl[i] for i in lv)
        U = Universe(names)
        b = sweep.Builder(src, U)
        den = O.Den(traw, U)
        for fu in sweep.wide_functions(U, names):
            if focus is not None and sweep.norm([lv, fu]) != sweep.norm(focus):
                continue
            if len(U.support(fu)) < 2:
                continue
            case = dict(task=t[:-1] + ([list(lv), fu],), levels=list(lv), u=U.fmt(fu), target=tperm)
            try:
                u = b.verified(fu)
                src.incref(u)
                r1 = _bdd.copy_bdd(u, src, traw)
                h = asrc._add_int(u)
                r2 = asrc.copy(h, tgt)
                r3 = _copy.copy_bdd(h, tgt)
                rep.add('evaluations', 3)
                rep.add('nontrivial', 3)
                for how, r in (('bdd.copy_bdd', r1), ('autoref.BDD.copy', r2),
                               ('_copy.copy_bdd', r3)):
                    if den(r) != fu:
                        rec('wide-wrong:' + how, '%s: the copy denotes another function (wide '
                            'managers)' % how, case)
                if not (r1 == r2.node == r3.node):
                    rec('wide-noncanonical', 'copies of one function are different references '
                        'in the target (wide managers)', case)
                del h, r2, r3
                r = how = None       # the loop variable still holds the last Function
                src.decref(u)
            except Violation as e:
                rec('wide-broken:' + e.what, e.what, case, **e.detail)
            except Exception as e:  # noqa
                rec('wide-exception:' + type(e).__name__, 'raised %r' % (e,), case)
        env.settle() if False else None
        try:
            O.check(traw, {}, None)
        except Violation as e:
            rec('wide-target:' + e.what, e.what, dict(task=t, levels=list(lv)), **e.detail)
        traw.collect_garbage()
        src.collect_garbage()
        den.reset()
    if si == 0 and focus is None and mine:
        rep.sample(dict(kind='wide managers', declared=nvars, target_order=tperm,
                        support_levels=list(mine[len(mine) // 2])))
    return rep


def _ledger(handles):
    ext = {}
    for h in handles:
        ext[abs(h.node)] = ext.get(abs(h.node), 0) + 1
    return ext


def task_reorder(t):
    """Copying INTO a manager whose dynamic reordering is enabled: a reordering request is forced
    at the k-th node creation inside the copy and would end in a chosen order (every permutation
    of the three variables) if it were served.  The copy must be exact and canonical, the target
    consistent, whatever the library does with the request."""
    import itertools
    _, k, si, ns, focus = t
    rep = run.Report()
    rec = sweep.Rec(rep)
    names = names_for(3, env.SEED)
    U = Universe(names)
    src = S.new_autoref({v: i for i, v in enumerate(names)})
    refs, b = sweep.build_all(src, U, hold=False)
    fn = {f: src._add_int(r) for f, r in refs.items()}
    sraw = src._bdd
    perms = list(itertools.permutations(names))
    seam = sweep.pick_order_seam()
    if not seam.available():
        rep.note('dd.bdd._request_reordering is absent: reordering cannot be forced')
        return rep
    fs = sorted(refs)
    mine = sweep.shard(fs, ns)[si]
    routes = ('bdd.copy_bdd', 'autoref.BDD.copy', '_copy.copy_bdd', 'bdd.BDD.copy')
    with seam:
        for fu in mine:
            if focus is not None and fu != focus:
                continue
            for pi, perm in enumerate(perms):
                route = routes[(fu + pi) % len(routes)]
                case = dict(task=t[:-1] + (fu,), u=U.fmt(fu), route=route, position=k,
                            order_if_served=list(perm))
                try:
                    # a fresh target in another order, holding two functions, reordering on
                    torder = {v: i for i, v in enumerate(perms[(pi + 2) % len(perms)])}
                    traw = S.new_bdd(torder)
                    tgt = S.autoref_around(traw)
                    tb = sweep.Builder(traw, U)
                    held = []
                    for g in (U.var(names[0]) ^ U.var(names[2]), U.var(names[1]) & U.var(names[2])):
                        held.append((tgt._add_int(tb.verified(g)), g))
                    tgt.configure(reordering=True)
                    seam.target = {v: i for i, v in enumerate(perm)}
                    seam.arm((k,))
                    try:
                        if route == 'bdd.copy_bdd':
                            r = tgt._add_int(_bdd.copy_bdd(fn[fu].node, sraw, traw))
                        elif route == 'autoref.BDD.copy':
                            r = src.copy(fn[fu], tgt)
                        elif route == '_copy.copy_bdd':
                            r = _copy.copy_bdd(fn[fu], tgt)
                        else:
                            r = tgt._add_int(sraw.copy(fn[fu].node, traw))
                    finally:
                        seam.disarm()
                    rep.add('evaluations')
                    rep.add('nontrivial')
                    if seam.count >= k:
                        rep.add('requests_made_inside_the_copy')
                    den = O.Den(traw, U)
                    if den(r) != fu:
                        rec('reorder-wrong:' + route, 'the copy denotes another function when a '
                            'reordering request is made inside the copy', case)
                    tb.reset()
                    if r.node != tb(fu):
                        rec('reorder-noncanonical:' + route, 'the copy is not the canonical '
                            'reference of its function in the target', case)
                    for h, g in held:
                        if den(h) != g:
                            rec('reorder-held:' + route, 'a function held in the target changed',
                                case)
                    live = [h for h, _ in held] + [r]
                    env.settle()
                    O.check(traw, _ledger(live), U, O.Den(traw, U))
                    if not tgt.configure().get('reordering'):
                        rec('reorder-config', 'dynamic reordering of the target is switched off '
                            'after the copy', case)
                    del r, live, held
                except Violation as e:
                    rec('reorder-broken:' + e.what, e.what, case, **e.detail)
                except Exception as e:  # noqa
                    rec('reorder-exception:%s:%s' % (route, type(e).__name__),
                        'raised %r' % (e,), case)
    if si == 0 and focus is None:
        rep.sample(dict(kind='copy into a manager with reordering on, request forced inside',
                        position=k, routes=list(routes)))
    return rep


TASKS = dict(c=task, v=task_vars, w=task_wide, r=task_reorder)


def dispatch(t):
    return TASKS[t[0]](t)


def plan(tier):
    ts = [('v', 3, None), ('v', 4, None)]
    ts += [('r', k, si, 4, None) for k in (1, 2) for si in range(4)]
    for tperm in ('rev', 'weave'):
        ts.append(('w', 12, 2, tperm, 0, 1, None))
        for si in range(8):
            ts.append(('w', 12, 3, tperm, si, 8, None))
        for si in range(4):
            ts.append(('w', sweep.XWIDE, 5, tperm, si, 4, None))
    for k, (soi, toi) in enumerate(((0, 4), (3, 1), (5, 5), (2, 0), (1, 3), (4, 2))):
        ts.append(('c', 3, '%d:%s' % (soi, ('K1', 'K2', 'rev')[k % 3]), toi,
                   TARGETS[k % len(TARGETS)], 0, 1, None))
    if tier == 'quick':
        for soi in range(6):
            for toi in range(6):
                ts.append(('c', 3, soi, toi, TARGETS[(soi * 6 + toi) % len(TARGETS)], 0, 1, None))
        for tk in TARGETS:
            ts.append(('c', 3, 0, 5, tk, 0, 1, None))
            ts.append(('c', 3, 3, 3, tk, 0, 1, None))
        for si in range(8):
            ts.append(('c', 4, 0, 23, 'plain', si, 64, None))
            ts.append(('c', 4, 10, 17, 'populated', si + 8, 64, None))
    else:
        for soi in range(6):
            for toi in range(6):
                for tk in TARGETS:
                    ts.append(('c', 3, soi, toi, tk, 0, 1, None))
        for soi in range(24):
            for si in range(4):
                ts.append(('c', 4, soi, 23 - soi, 'plain', si, 4, None))
                ts.append(('c', 4, soi, 0, ('populated', 'extra-mid', 'collected')[soi % 3], si,
                           4, None))
    return ts


replay = sweep.replay_by_task(dispatch)


def main(tier, t0):
    return sweep.run_driver(
        PROP, tier, t0, plan(tier), dispatch,
        rule=('every function of 3 named variables x every pair (source order, target order) x '
              'target kinds {same names, extra names top/middle/bottom, pre-populated with F(2), '
              'populated then half collected} (quick: one kind per order pair + all kinds on two '
              'pairs; thorough: all) x 7 copy routes incl. shared memo and copy_bdds_from; n=4: '
              'slices quick / all functions for 48 order pairs thorough; copy_vars from every '
              'order into every prefix; non-trivial = non-constant function; distinct by '
              'construction'),
        assumptions=['denotation by NAME over a universe that includes the extra names'],
        replay_fn=replay,
        exhaustive=(tier == 'thorough'))
