"""C13 — image and preimage equal rename, conjoin, quantify (relational product)."""
import itertools

from .. import env, run, sweep
from .. import oracle as O
from .. import state as S
from ..oracle import Violation
from ..ref import Universe

import dd.bdd as _bdd
import dd.autoref as _autoref

PROP = 'C13'

POOLS = [('x', 'xp', 'y', 'yp', 'z', 'zp'), ('a', "a'", 'b', "b'", 'c', "c'"),
         ('p0', 'p1', 'q0', 'q1', 'r0', 'r1')]


def names_pairs(k):
    pool = POOLS[env.SEED % len(POOLS)]
    return pool[:2 * k]


def adjacent_ok(order, rename):
    return all(abs(order[a] - order[b]) == 1 for a, b in rename.items())


def expected_pre(U, ft, fs_, rename, q, fa):
    return U.quantify(ft & U.rename(fs_, rename), q, fa)


def expected_img(U, ft, fs_, rename, q, fa):
    return U.rename(U.quantify(ft & fs_, q, fa), rename)


def pre_allowed(U, order, fs_, rename):
    """preimage precondition: pairs adjacent, target independent of the rename values."""
    if not adjacent_ok(order, rename):
        return False
    sup = U.support(fs_)
    return not (sup & set(rename.values()))


def img_allowed(U, ft, fs_, rename, q):
    """image precondition: every rename value is quantified or absent from both operands."""
    sup = (U.support(ft) | U.support(fs_)) - set(q)
    return not (sup & set(rename.values()))


def _mgr(names, oi, masks=None):
    U = Universe(names)
    oi, hist = sweep.split_oi(oi)
    order = sweep.orders(names)[oi]
    if hist:
        # a manager with a history (numbers re-used, nodes rewritten in place by swaps)
        m, refs = sweep.make_history(hist, order, U, masks)
        b = sweep.Builder(m, U)
    else:
        m = S.new_bdd(order)
        refs, b = sweep.build_all(m, U, masks, hold=True)
    inv = {}
    for f, r in refs.items():
        inv[r] = f
        inv[-r] = U.full ^ f
    return U, order, m, refs, inv, b


def _val(inv, den, r):
    g = inv.get(r)
    return den(r) if g is None else g


def task_one(t):
    """One pair: all 16 x 16 operands, both orders, every rename direction/qvars/quantifier."""
    _, oi, focus = t
    rep = run.Report()
    rec = sweep.Rec(rep)
    names = names_pairs(1)
    U, order, m, refs, inv, b = _mgr(names, oi)
    den = O.Den(m, U)
    x, xp = names
    fs = sorted(refs)
    for ft in fs:
        for fs_ in fs:
            for q in sweep.subsets(names):
                for fa in (False, True):
                    for rename in ({x: xp}, {xp: x}, {}):
                        case = dict(task=t, trans=U.fmt(ft), set=U.fmt(fs_), rename=rename,
                                    qvars=list(q), forall=fa)
                        try:
                            if pre_allowed(U, order, fs_, rename):
                                rep.add('evaluations')
                                r = _bdd.preimage(refs[ft], refs[fs_], dict(rename), set(q), m, fa)
                                if _val(inv, den, r) != expected_pre(U, ft, fs_, rename, q, fa):
                                    rec('preimage-1pair', 'preimage denotes the wrong function',
                                        case)
                                if ft not in (0, U.full) and fs_ not in (0, U.full):
                                    rep.add('nontrivial')
                            if img_allowed(U, ft, fs_, rename, q):
                                rep.add('evaluations')
                                r = _bdd.image(refs[ft], refs[fs_], dict(rename), set(q), m, fa)
                                if _val(inv, den, r) != expected_img(U, ft, fs_, rename, q, fa):
                                    rec('image-1pair', 'image denotes the wrong function', case)
                                if ft not in (0, U.full) and fs_ not in (0, U.full):
                                    rep.add('nontrivial')
                        except Violation as e:
                            rec('broken-1pair:' + e.what, e.what, case)
                        except Exception as e:  # noqa
                            rec('exception-1pair:' + type(e).__name__, 'raised %r' % (e,), case)
    _after(rec, m, refs, U, t)
    rep.sample(dict(kind='one pair', order=sweep.order_str(order), trans=U.fmt(fs[9]),
                    set=U.fmt(fs[5]), rename={x: xp}, qvars=[xp], forall=False))
    return rep


def _after(rec, m, refs, U, t):
    try:
        ext = {}
        for f, r in refs.items():
            ext[abs(r)] = ext.get(abs(r), 0) + 1
        den = O.Den(m, U)
        O.check(m, ext, U, den)
        for f, r in refs.items():
            if den(r) != f:
                raise Violation('an operand changed denotation during the sweep')
    except Violation as e:
        rec('after:' + e.what, e.what, dict(task=t), **e.detail)


def task_mid(t):
    """One pair plus a third variable that may sit BETWEEN the pair (non-adjacent pairs for
    image): all of F(3) as trans, every order, both rename directions, every allowed qvars."""
    _, oi, si, ns, focus = t
    rep = run.Report()
    rec = sweep.Rec(rep)
    x, xp = names_pairs(1)
    names = (x, 'c_', xp)
    U, order, m, refs, inv, b = _mgr(names, oi)
    den = O.Den(m, U)
    fs = sorted(refs)
    sets = sorted(set(U.all_functions((x, 'c_'))) | set(U.all_functions((xp, 'c_'))))
    mine = sweep.shard(fs, ns)[si]
    cnt = nt = 0
    _decoy = sweep.Decoy(names)
    for ft in mine:
        _bad = _decoy.poke()
        if _bad:
            rec('second-manager:' + _bad, _bad, dict(task=t))
        if focus is not None and ft != focus:
            continue
        ut = refs[ft]
        for fs_ in sets:
            us = refs[fs_]
            for q in sweep.subsets(names):
                for fa in (False, True):
                    for rename in ({x: xp}, {xp: x}):
                        case = dict(task=t[:-1] + (ft,), trans=U.fmt(ft), set=U.fmt(fs_),
                                    rename=rename, qvars=list(q), forall=fa,
                                    order=sweep.order_str(order))
                        try:
                            calls = []
                            if pre_allowed(U, order, fs_, rename):
                                calls.append(('preimage', _bdd.preimage(
                                    ut, us, dict(rename), set(q), m, fa),
                                    expected_pre(U, ft, fs_, rename, q, fa)))
                            if img_allowed(U, ft, fs_, rename, q):
                                calls.append(('image', _bdd.image(
                                    ut, us, dict(rename), set(q), m, fa),
                                    expected_img(U, ft, fs_, rename, q, fa)))
                            for how, r, want in calls:
                                cnt += 1
                                got = inv.get(r)
                                if got is None:
                                    got = den(r)
                                    if got == want:
                                        rec('%s-mid-noncanonical' % how,
                                            '%s returned a reference that is not the canonical '
                                            'one for its function' % how, case)
                                if got != want:
                                    rec('%s-mid' % how, '%s denotes the wrong function' % how,
                                        case, got=U.fmt(got), want=U.fmt(want))
                                if ft not in (0, U.full) and fs_ not in (0, U.full):
                                    nt += 1
                        except Violation as e:
                            rec('mid-broken:' + e.what, e.what, case)
                        except Exception as e:  # noqa
                            rec('mid-exception:' + type(e).__name__, 'raised %r' % (e,), case)
    rep.add('evaluations', cnt)
    rep.add('nontrivial', nt)
    _after(rec, m, refs, U, t)
    if si == 0 and focus is None:
        rep.sample(dict(kind='pair with a variable in between', order=sweep.order_str(order),
                        trans=U.fmt(fs[100]), set=U.fmt(sets[5]), rename={xp: x}, qvars=[x]))
    return rep


def task_reorder(t):
    """(Pre)image in a SPARSE manager (only the two operands exist) whose dynamic reordering is
    on, with a request forced at the k-th node creation inside the call; if the request were
    served the order would become a chosen permutation."""
    _, k, si, ns, focus = t
    rep = run.Report()
    rec = sweep.Rec(rep)
    x, xp = names_pairs(1)
    names = (x, xp, 'c_')
    U = Universe(names)
    perms = list(itertools.permutations(names))
    seam = sweep.pick_order_seam()
    if not seam.available():
        rep.note('dd.bdd._request_reordering is absent: reordering cannot be forced')
        return rep
    fs = list(U.all_functions(names))
    sets = sorted(set(U.all_functions((x, 'c_'))) | set(U.all_functions((xp, 'c_'))))
    order = {x: 0, xp: 1, 'c_': 2}
    mine = sweep.shard(fs, ns)[si]
    with seam:
        for ft in mine:
            if focus is not None and ft != focus:
                continue
            for j, fs_ in enumerate(sets):
                pi = (ft + j) % len(perms)
                fa = bool((ft + j) % 2)
                q = (x, xp, 'c_')[: (ft + j) % 3]
                for rename in ({x: xp}, {xp: x}):
                    case = dict(task=t[:-1] + (ft,), trans=U.fmt(ft), set=U.fmt(fs_),
                                rename=rename, qvars=list(q), forall=fa, position=k,
                                order_if_served=list(perms[pi]))
                    try:
                        calls = []
                        if pre_allowed(U, order, fs_, rename):
                            calls.append(('preimage', _bdd.preimage,
                                          expected_pre(U, ft, fs_, rename, q, fa)))
                        if img_allowed(U, ft, fs_, rename, q):
                            calls.append(('image', _bdd.image,
                                          expected_img(U, ft, fs_, rename, q, fa)))
                        for how, fn_, want in calls:
                            m = S.new_bdd(dict(order))
                            b = sweep.Builder(m, U)
                            ut, us = b.verified(ft), b.verified(fs_)
                            m.incref(ut)
                            m.incref(us)
                            m.configure(reordering=True)
                            seam.target = {v_: i for i, v_ in enumerate(perms[pi])}
                            seam.arm((k,))
                            try:
                                r = fn_(ut, us, dict(rename), set(q), m, fa)
                            finally:
                                seam.disarm()
                            rep.add('evaluations')
                            rep.add('nontrivial')
                            if seam.count >= k:
                                rep.add('requests_made_inside')
                            den = O.Den(m, U)
                            if den(r) != want:
                                rec('reorder:' + how, '%s denotes the wrong function when a '
                                    'reordering request is made inside the call' % how, case)
                            if den(ut) != ft or den(us) != fs_:
                                rec('reorder-operand:' + how, 'an operand changed', case)
                            ext = {}
                            for y_ in (ut, us):
                                ext[abs(y_)] = ext.get(abs(y_), 0) + 1
                            m.incref(r)
                            ext[abs(r)] = ext.get(abs(r), 0) + 1
                            O.check(m, ext, U)
                            if not m.configure().get('reordering'):
                                rec('reorder-config:' + how, 'dynamic reordering is switched off '
                                    'after the call', case)
                    except Violation as e:
                        rec('reorder-broken:' + e.what, e.what, case, **e.detail)
                    except Exception as e:  # noqa
                        rec('reorder-exception:' + type(e).__name__, 'raised %r' % (e,), case)
    if si == 0 and focus is None:
        rep.sample(dict(kind='(pre)image with a reordering request forced inside', position=k))
    return rep


def task_wide(t):
    """(Pre)images over one or two pairs that sit at HIGH levels of a manager with five
    interleaved pairs (10 declared variables)."""
    _, si, ns, focus = t
    rep = run.Report()
    rec = sweep.Rec(rep)
    xw = t[0] == 'xwide'
    npairs = 20 if xw else 5
    prs = [('x%d' % i, "x%dp" % i) for i in range(npairs)]
    decl = [v for p_ in prs for v in p_]
    m = S.new_bdd({v: i for i, v in enumerate(decl)})
    if xw:
        # twenty interleaved pairs: (pre)images over three pairs, some at levels >= 32
        subsets = list(itertools.combinations((0, 1, 7, 15, 16, 17, 19), 3))
    else:
        subsets = [(i,) for i in range(npairs)] + list(itertools.combinations(range(npairs), 2))
    mine = sweep.shard(subsets, ns)[si]
    for P in mine:
        if focus is not None and sweep.norm(P) != sweep.norm(focus):
            continue
        names = tuple(v for i in P for v in prs[i])
        U = Universe(names)
        b = sweep.Builder(m, U)
        unpr = tuple(prs[i][0] for i in P)
        prim = tuple(prs[i][1] for i in P)
        if len(P) == 1:
            transs = U.all_functions(names)
        elif len(P) == 2:
            transs = sorted(set(family3of4(U, names)))[::4]
        else:
            transs = sweep.wide_functions(U, names)
            eqs = U.full
            for a_, b_ in zip(unpr, prim):
                eqs &= U.full ^ U.var(a_) ^ U.var(b_)
            transs = transs + [eqs, U.full ^ eqs]
        sets_pre = U.all_functions(unpr)
        for fa in (False, True):
            for ft in transs:
                case0 = dict(task=t[:-1] + (list(P),), pairs=list(P), trans=U.fmt(ft), forall=fa)
                try:
                    ut = b.verified(ft)
                    m.incref(ut)
                    for fs_ in sets_pre:
                        us = b.verified(fs_)
                        ren = dict(zip(unpr, prim))
                        r = _bdd.preimage(ut, us, ren, set(prim), m, fa)
                        want = expected_pre(U, ft, fs_, ren, prim, fa)
                        rep.add('evaluations', 2)
                        if b.den(r) != want:
                            rec('wide-preimage', 'preimage denotes the wrong function for pairs at '
                                'high levels of a wide manager', dict(case0, set=U.fmt(fs_)))
                        elif r != b(want):
                            rec('wide-preimage-noncanonical', 'preimage returned a reference that '
                                'is not the canonical one', dict(case0, set=U.fmt(fs_)))
                        ren2 = dict(zip(prim, unpr))
                        r = _bdd.image(ut, us, ren2, set(unpr), m, fa)
                        want = expected_img(U, ft, fs_, ren2, unpr, fa)
                        if b.den(r) != want:
                            rec('wide-image', 'image denotes the wrong function for pairs at high '
                                'levels of a wide manager', dict(case0, set=U.fmt(fs_)))
                        elif r != b(want):
                            rec('wide-image-noncanonical', 'image returned a reference that is '
                                'not the canonical one', dict(case0, set=U.fmt(fs_)))
                        if ft not in (0, U.full) and fs_ not in (0, U.full):
                            rep.add('nontrivial', 2)
                    m.decref(ut)
                except Violation as e:
                    rec('wide-broken:' + e.what, e.what, case0)
                except Exception as e:  # noqa
                    rec('wide-exception:' + type(e).__name__, 'raised %r' % (e,), case0)
        try:
            O.check(m, {}, None)
        except Violation as e:
            rec('wide-after:' + e.what, e.what, dict(task=t, pairs=list(P)), **e.detail)
        m.collect_garbage()
    if si == 0 and focus is None and mine:
        rep.sample(dict(kind='five interleaved pairs, (pre)image over pairs %r' % (list(mine[-1]),)))
    return rep


def task_t1(t):
    """Two pairs, canonical relational product; trans over ALL of F(4) x 16 sets."""
    _, kind, oi, si, ns, focus = t
    rep = run.Report()
    rec = sweep.Rec(rep)
    names = names_pairs(2)
    x, xp, y, yp = names
    U, order, m, refs, inv, b = _mgr(names, oi)
    den = O.Den(m, U)
    if kind == 'pre':
        rename = {x: xp, y: yp}
        setvars = (x, y)
        q = (xp, yp)
        if not adjacent_ok(order, rename):
            return rep
        fn = _bdd.preimage
    else:
        rename = {xp: x, yp: y}
        setvars = (xp, yp) if False else (x, y)
        q = (x, y)
        fn = _bdd.image
    sets = U.all_functions(setvars)
    fs = sorted(refs)
    mine = sweep.shard(fs, ns)[si]
    F = U.full
    cnt = 0
    for fa in (False, True):
        pre_sets = []
        for fs_ in sets:
            pre_sets.append((fs_, refs[fs_], U.rename(fs_, rename) if kind == 'pre' else fs_))
        for ft in mine:
            if focus is not None and ft != focus:
                continue
            ut = refs[ft]
            for fs_, us, fsr in pre_sets:
                try:
                    r = fn(ut, us, rename, q, m, fa)
                    got = inv.get(r)
                    if got is None:
                        got = den(r)
                        rec('%s-2pairs-noncanonical' % kind,
                            '%s returned a reference that is not the canonical one' % kind,
                            dict(task=t[:-1] + (ft,), trans=U.fmt(ft), set=U.fmt(fs_)))
                    want = U.quantify(ft & fsr, q, fa)
                    if kind == 'img':
                        want = U.rename(want, rename)
                    ok = got == want
                except Exception:  # noqa
                    ok = False
                cnt += 1
                if not ok:
                    rec('%s-2pairs-canonical' % kind, '%s denotes the wrong function' % kind,
                        dict(task=t[:-1] + (ft,), trans=U.fmt(ft), set=U.fmt(fs_),
                             rename=rename, qvars=list(q), forall=fa))
    rep.add('evaluations', cnt)
    rep.add('nontrivial', 2 * sum(1 for f in mine if f not in (0, F)) * (len(sets) - 2))
    _after(rec, m, refs, U, t)
    if si == 0 and focus is None:
        rep.sample(dict(kind=kind + ' two pairs canonical', order=sweep.order_str(order),
                        trans=U.fmt(fs[len(fs) // 3]), set=U.fmt(sets[6]), rename=rename,
                        qvars=list(q)))
    return rep


def family3of4(U, names):
    out = []
    for trio in itertools.combinations(names, 3):
        for f in U.all_functions(trio):
            if f not in out:
                out.append(f)
    return out


def task_t2(t):
    """Two pairs, every other configuration over the family 'functions of any 3 of 4 variables'."""
    _, kind, oi, si, ns, focus = t
    rep = run.Report()
    rec = sweep.Rec(rep)
    names = names_pairs(2)
    x, xp, y, yp = names
    U = Universe(names)
    fam = sorted(set(family3of4(U, names)))
    order = sweep.orders(names)[oi]
    m = S.new_bdd(order)
    refs, b = sweep.build_all(m, U, None, hold=True)
    inv = {}
    for f, r in refs.items():
        inv[r] = f
        inv[-r] = U.full ^ f
    den = O.Den(m, U)
    if kind == 'pre':
        renames = [{x: xp}, {y: yp}, {x: xp, y: yp}, {xp: x}, {yp: y, x: xp}]
    else:
        renames = [{xp: x}, {yp: y}, {xp: x, yp: y}, {x: xp}, {y: yp, xp: x}]
    qsets = list(sweep.subsets(names))
    mine = sweep.shard(fam, ns)[si]
    cnt = nt = 0
    for rename in renames:
        if kind == 'pre' and not adjacent_ok(order, rename):
            continue
        setvars = [v for v in names if v not in rename.values()] if kind == 'pre' else names
        sets = U.all_functions(tuple(setvars[:2])) if len(setvars) >= 2 else [0, U.full]
        if kind == 'img':
            sets = U.all_functions((x, y))
        for q in qsets:
            for fa in (False, True):
                for ft in mine:
                    if focus is not None and ft != focus:
                        continue
                    ut = refs[ft]
                    for fs_ in sets:
                        if kind == 'pre':
                            if U.support(fs_) & set(rename.values()):
                                continue
                            want = None
                        else:
                            if not img_allowed(U, ft, fs_, rename, q):
                                continue
                        case = dict(task=t[:-1] + (ft,), trans=U.fmt(ft), set=U.fmt(fs_),
                                    rename=rename, qvars=list(q), forall=fa)
                        try:
                            if kind == 'pre':
                                r = _bdd.preimage(ut, refs[fs_], dict(rename), set(q), m, fa)
                                want = expected_pre(U, ft, fs_, rename, q, fa)
                            else:
                                r = _bdd.image(ut, refs[fs_], dict(rename), set(q), m, fa)
                                want = expected_img(U, ft, fs_, rename, q, fa)
                            got = inv.get(r)
                            if got is None:
                                got = den(r)
                                rec('%s-2pairs-noncanonical' % kind,
                                    '%s returned a reference that is not the canonical one'
                                    % kind, case)
                            if got != want:
                                rec('%s-2pairs' % kind, '%s denotes the wrong function' % kind,
                                    case, got=U.fmt(got), want=U.fmt(want))
                        except Violation as e:
                            rec('%s-broken:%s' % (kind, e.what), e.what, case)
                        except Exception as e:  # noqa
                            rec('%s-exception:%s' % (kind, type(e).__name__), 'raised %r' % (e,),
                                case)
                        cnt += 1
                        if ft not in (0, U.full) and fs_ not in (0, U.full):
                            nt += 1
    rep.add('evaluations', cnt)
    rep.add('nontrivial', nt)
    _after(rec, m, refs, U, t)
    if si == 0 and focus is None:
        rep.sample(dict(kind=kind + ' two pairs, general', order=sweep.order_str(order),
                        trans=U.fmt(fam[len(fam) // 3]), rename=renames[0], qvars=[y, yp]))
    return rep


def task_t3(t):
    """Argument forms: names vs levels, sets vs lists, autoref wrappers."""
    _, oi, si, ns, focus = t
    rep = run.Report()
    rec = sweep.Rec(rep)
    names = names_pairs(2)
    x, xp, y, yp = names
    U = Universe(names)
    order = sweep.orders(names)[oi]
    bdd = S.new_autoref(order)
    m = bdd._bdd
    refs, b = sweep.build_all(bdd, U, None, hold=False)
    fam = sorted(set(family3of4(U, names)))
    hs = {f: bdd._add_int(refs[f]) for f in fam}
    sets = U.all_functions((x, y))
    for f in sets:
        hs.setdefault(f, bdd._add_int(refs[f]))
    den = O.Den(m, U)
    mine = sweep.shard(fam, ns)[si]
    L = order
    pre_ren = {x: xp, y: yp}
    img_ren = {xp: x, yp: y}
    cnt = nt = 0
    for ft in mine:
        if focus is not None and ft != focus:
            continue
        for fs_ in sets:
            for fa in (False, True):
                case = dict(task=t[:-1] + (ft,), trans=U.fmt(ft), set=U.fmt(fs_), forall=fa)
                try:
                    forms = []
                    if adjacent_ok(order, pre_ren):
                        want = expected_pre(U, ft, fs_, pre_ren, (xp, yp), fa)
                        forms += [
                            ('pre names/list', want, _bdd.preimage(
                                refs[ft], refs[fs_], pre_ren, [xp, yp], m, fa)),
                            ('pre levels/set', want, _bdd.preimage(
                                refs[ft], refs[fs_], {L[k]: L[v] for k, v in pre_ren.items()},
                                {L[xp], L[yp]}, m, fa)),
                            ('pre autoref', want, _autoref.preimage(
                                hs[ft], hs[fs_], pre_ren, {xp, yp}, fa)),
                        ]
                    want = expected_img(U, ft, fs_, img_ren, (x, y), fa)
                    forms += [
                        ('img names/list', want, _bdd.image(
                            refs[ft], refs[fs_], img_ren, [x, y], m, fa)),
                        ('img levels/set', want, _bdd.image(
                            refs[ft], refs[fs_], {L[k]: L[v] for k, v in img_ren.items()},
                            {L[x], L[y]}, m, fa)),
                        ('img autoref', want, _autoref.image(
                            hs[ft], hs[fs_], img_ren, {x, y}, fa)),
                    ]
                    for how, want, r in forms:
                        cnt += 1
                        if den(r) != want:
                            rec('form:' + how, '%s denotes the wrong function' % how, case)
                    if ft not in (0, U.full) and fs_ not in (0, U.full):
                        nt += len(forms)
                    forms = r = None
                except Violation as e:
                    rec('form-broken:' + e.what, e.what, case)
                except Exception as e:  # noqa
                    rec('form-exception:' + type(e).__name__, 'raised %r' % (e,), case)
    rep.add('evaluations', cnt)
    rep.add('nontrivial', nt)
    env.settle()
    try:
        ext = {}
        for h in hs.values():
            ext[abs(h.node)] = ext.get(abs(h.node), 0) + 1
        O.check(bdd, ext, U)
    except Violation as e:
        rec('form-after:' + e.what, e.what, dict(task=t), **e.detail)
    return rep


REL6 = None


def task_three(t):
    """Three pairs: trans = conj/disj of three per-pair relations; sets = F(unprimed)."""
    _, kind, oi48, si, ns, focus = t
    rep = run.Report()
    rec = sweep.Rec(rep)
    names = names_pairs(3)
    U = Universe(names)
    pairs = [(names[0], names[1]), (names[2], names[3]), (names[4], names[5])]
    # the 48 orders that keep pairs adjacent: order of the 3 blocks x orientation of each
    blocks = list(itertools.permutations(range(3)))
    orient = list(itertools.product((0, 1), repeat=3))
    bo, oo = divmod(oi48, 8)
    seq = []
    for bi in blocks[bo]:
        a, b_ = pairs[bi]
        seq += [a, b_] if orient[oo][bi] == 0 else [b_, a]
    order = {v: i for i, v in enumerate(seq)}
    m = S.new_bdd(order)
    b = sweep.Builder(m, U)

    def rels(v, vp):
        X, Y = U.var(v), U.var(vp)
        F = U.full
        return [F ^ X ^ Y, X ^ Y, Y, (F ^ X) & Y, (F ^ X) | Y, F]
    per = [rels(*p) for p in pairs]
    trans = []
    for r0, r1, r2 in itertools.product(*per):
        trans.append(r0 & r1 & r2)
        trans.append(r0 | r1 & r2)
    trans = sorted(set(trans))
    unprimed = tuple(p[0] for p in pairs)
    primed = tuple(p[1] for p in pairs)
    sets = U.all_functions(unprimed)
    if kind == 'pre':
        rename = dict(zip(unprimed, primed))
        q = primed
    else:
        rename = dict(zip(primed, unprimed))
        q = unprimed
    mine = sweep.shard(trans, ns)[si]
    srefs = []
    for fs_ in sets:
        r = b.verified(fs_)
        m.incref(r)
        srefs.append((fs_, r, U.rename(fs_, rename) if kind == 'pre' else fs_))
    cnt = nt = 0
    for k, ft in enumerate(mine):
        if focus is not None and ft != focus:
            continue
        ut = b.verified(ft)
        m.incref(ut)
        for fa in (False, True):
            for fs_, us, fsr in srefs:
                case = dict(task=t[:-1] + (ft,), trans=U.fmt(ft), set=U.fmt(fs_), forall=fa,
                            order=sweep.order_str(order))
                try:
                    if kind == 'pre':
                        r = _bdd.preimage(ut, us, rename, q, m, fa)
                        want = U.quantify(ft & fsr, q, fa)
                    else:
                        r = _bdd.image(ut, us, rename, q, m, fa)
                        want = U.rename(U.quantify(ft & fsr, q, fa), rename)
                    if b.den(r) != want:
                        rec('%s-3pairs' % kind, '%s denotes the wrong function' % kind, case)
                except Violation as e:
                    rec('%s-3pairs-broken:%s' % (kind, e.what), e.what, case)
                except Exception as e:  # noqa
                    rec('%s-3pairs-exception:%s' % (kind, type(e).__name__), 'raised %r' % (e,),
                        case)
                cnt += 1
                if ft not in (0, U.full) and fs_ not in (0, U.full):
                    nt += 1
        m.decref(ut)
        if k % 8 == 7:
            m.collect_garbage()
            b.reset()
    rep.add('evaluations', cnt)
    rep.add('nontrivial', nt)
    if si == 0 and focus is None:
        rep.sample(dict(kind=kind + ' three pairs', order=sweep.order_str(order),
                        trans=U.fmt(trans[len(trans) // 2]), rename=rename, qvars=list(q)))
    return rep


TASKS = dict(one=task_one, t1=task_t1, t2=task_t2, t3=task_t3, three=task_three, mid=task_mid,
             wide=task_wide, xwide=task_wide, reorder=task_reorder)


def dispatch(t):
    return TASKS[t[0]](t)


def _adjacent_orders4():
    names = names_pairs(2)
    ren = {names[0]: names[1], names[2]: names[3]}
    return [i for i, o in enumerate(sweep.orders(names)) if adjacent_ok(o, ren)]


def plan(tier):
    ts = [('one', 0, None), ('one', 1, None), ('one', '0:rev', None), ('one', '1:K2', None)]
    ts += [('wide', si, 15, None) for si in range(15)]
    ts += [('xwide', si, 7, None) for si in range(7)]
    ts += [('reorder', k, si, 4, None) for k in (1, 2) for si in range(4)]
    for oi in range(6):
        for si in range(4 if tier == 'quick' else 2):
            ts.append(('mid', oi, si, 8 if tier == 'quick' else 2, None))
    adj = _adjacent_orders4()
    # managers with a history (see sweep.make_history)
    ts += [('mid', '2:K1', 0, 8, None), ('mid', '4:rev', 1, 8, None), ('mid', '1:K2', 2, 8, None)]
    ts += [('t1', 'pre', '%d:rev' % adj[0], 0, 8, None), ('t1', 'img', '2:K2', 1, 8, None)]
    if tier == 'quick':
        # canonical product: all of F(4) x 16 sets on two adjacent-pair orders (pre) and one
        # adjacent + one arbitrary order (image)
        for oi in (adj[0], adj[5]):
            for si in range(8):
                ts.append(('t1', 'pre', oi, si, 8, None))
        for oi in (adj[3], 2):
            for si in range(8):
                ts.append(('t1', 'img', oi, si, 8, None))
        for si in range(8):
            ts.append(('t2', 'pre', adj[1], si, 16, None))
            ts.append(('t2', 'img', 7, si + 8, 16, None))
        for si in range(4):
            ts.append(('t3', adj[2], si, 16, None))
        ts.append(('three', 'pre', 13, 0, 64, None))
        ts.append(('three', 'img', 30, 1, 64, None))
    else:
        for oi in adj:
            for si in range(8):
                ts.append(('t1', 'pre', oi, si, 8, None))
        for oi in range(24):
            for si in range(8):
                ts.append(('t1', 'img', oi, si, 8, None))
        for oi in adj:
            for si in range(4):
                ts.append(('t2', 'pre', oi, si, 4, None))
        for oi in range(24):
            for si in range(4):
                ts.append(('t2', 'img', oi, si, 4, None))
        for oi in (adj[0], adj[3], adj[6], 2, 7):
            for si in range(4):
                ts.append(('t3', oi, si, 4, None))
        for o48 in range(48):
            for si in range(2):
                ts.append(('three', 'pre', o48, si, 2, None))
                ts.append(('three', 'img', o48, si, 2, None))
    return ts


replay = sweep.replay_by_task(dispatch)


def main(tier, t0):
    return sweep.run_driver(
        PROP, tier, t0, plan(tier), dispatch,
        rule=('one pair: all 16x16 (trans, set) x both orders x all qvars x both quantifiers x both '
              'rename directions (filtered by the documented preconditions); two pairs: (t1) '
              'canonical relational product with trans over ALL of F(4) x 16 sets (quick: 4 '
              'orders, thorough: the 8 adjacent orders for preimage and all 24 for image), (t2) '
              'every other rename/qvars configuration allowed by the precondition over the '
              '1024-function family "functions of any 3 of the 4 variables" x 16 sets, (t3) '
              'argument forms names/levels, lists/sets, autoref wrappers; three pairs: trans = '
              'conjunctions/disjunctions of per-pair relations x all 256 sets x the 48 adjacent '
              'orders; inputs outside the preconditions are not generated; non-trivial = '
              'non-constant trans and set; distinct by construction'),
        assumptions=['truth-table model: preimage = Q qvars. trans & target[rename]; '
                     'image = (Q qvars. trans & source)[rename]',
                     't2/three-pair sweeps range over stated families (bounded alphabet)'],
        replay_fn=replay,
        exhaustive=True)
