"""C06 — garbage collection frees exactly the unreachable nodes; counts stay exact.

Explicit-state BFS over histories of the real dd.bdd.BDD (DESIGN 2/C06).
"""
import time

from .. import run, sweep, state as S, oracle as O
from ..explore import bfs
from ..machines import BddMachine
from ..oracle import Violation
from ..ref import Universe

PROP = 'C06'


def machines(tier):
    """Several focused alphabets; each is explored exhaustively to its depth."""
    full2 = dict(names=('x', 'y'), max_handles=3, max_ext=2, ops=('and', 'xor'))
    refs2 = dict(names=('x', 'y'), max_handles=3, max_ext=2, ops=('and',),
                 with_ite=False, with_foa=False, with_reorder=False)
    ops2 = dict(names=('x', 'y'), max_handles=2, max_ext=2, ops=('and', 'xor'),
                with_ite=False, with_foa=False, with_twin=True)
    xor3 = dict(names=('x', 'y', 'z'), max_handles=2, max_ext=1, ops=('xor',),
                with_ite=False, with_foa=False, seeds=('fresh', 'used'))
    # reorderings to explicit orders / pairs share one level table across swaps and do NOT
    # collect first: histories where garbage is present when they start
    sort3 = dict(names=('x', 'y', 'z'), max_handles=2, max_ext=1, ops=('and',),
                 with_ite=False, with_foa=False, with_refops=True, with_sort=True,
                 with_reorder=False, seeds=('fresh', 'used'))
    full3 = dict(names=('x', 'y', 'z'), max_handles=3, max_ext=2, ops=('and', 'xor'),
                 seeds=('fresh', 'used', 'swapped', 'warm'))
    # a manager with several hundred nodes (node numbers above 256) held as ballast
    big6 = dict(names=('x', 'y', 'z', 'w', 'v', 'u'), max_handles=3, max_ext=1,
                ops=('and', 'xor'), with_ite=False, with_foa=False, seeds=('big',))
    if tier == 'quick':
        plan = [('big6', big6, 2), ('full2', full2, 3), ('refs2', refs2, 5), ('ops2', ops2, 5), ('xor3', xor3, 6),
                ('sort3', sort3, 4)]
    else:
        plan = [('big6', big6, 3), ('full2', full2, 4), ('refs2', refs2, 6), ('ops2', ops2, 6), ('xor3', xor3, 8),
                ('full3', full3, 4), ('sort3', sort3, 5)]
    out = []
    for label, kw, depth in plan:
        kw = dict(kw)
        m = BddMachine(kw.pop('names'), **kw)
        m.name = 'bdd-history/' + label
        out.append((m, depth))
    return out


def _big_base(k):
    """k pairs a_i, b_i in the order a* b* (level pairs holding 2**(k-1) nodes): two large
    functions, one held twice and one once, plus unreferenced garbage."""
    a = ['a%d' % i for i in range(k)]
    bb = ['b%d' % i for i in range(k)]
    names = tuple(a + bb)
    U = Universe(names)
    f = g = 0
    for i in range(k):
        f |= U.var(a[i]) & U.var(bb[i])
        g ^= U.var(a[i]) & U.var(bb[(i + 1) % k])
    m = S.new_bdd({v: i for i, v in enumerate(names)})
    b = sweep.Builder(m, U)
    rf, rg = b.verified(f), b.verified(g)
    m.incref(rf)
    m.incref(rf)
    m.incref(rg)
    b(U.var(a[0]) ^ U.var(bb[-1]))
    b(f & g)                                    # large unreferenced garbage
    return m, U, names, (rf, f), (rg, g)


def task_big(t):
    """Histories of length 1-3 on a LARGE manager (k = 7: ~1 000 nodes; k = 10: ~7 000 nodes):
    every adjacent swap, followed by every continuation of a small menu; exact counts, stored
    == reachable after collection, denotations of held references."""
    _, k, si, ns, focus = t
    rep = run.Report()
    rec = sweep.Rec(rep)
    base, U, names, (rf, f), (rg, g) = _big_base(k)
    conts = ('none', 'collect', 'release-g', 'release-f-once', 'swap-back', 'swap-next',
             'collect-roots-g')
    levels = sweep.shard(list(range(len(names) - 1)), ns)[si]
    for l in levels:
        for cont in conts:
            if focus is not None and sweep.norm([l, cont]) != sweep.norm(focus):
                continue
            case = dict(task=t[:-1] + ([l, cont],), level=l, then=cont)
            try:
                m = S.clone(base)
                ext = {abs(rf): 2}
                ext[abs(rg)] = ext.get(abs(rg), 0) + 1
                held = [(rf, f), (rg, g)]
                m.swap(l, l + 1)
                O.check(m, ext, None, semantic=False)
                collected = False
                if cont == 'collect':
                    m.collect_garbage()
                    collected = True
                elif cont == 'release-g':
                    m.decref(rg)
                    ext[abs(rg)] -= 1
                    held = [(rf, f)] if abs(rg) != abs(rf) else held
                    m.collect_garbage()
                    collected = True
                elif cont == 'release-f-once':
                    m.decref(rf)
                    ext[abs(rf)] -= 1
                    m.collect_garbage()
                    collected = True
                elif cont == 'swap-back':
                    m.swap(l, l + 1)
                elif cont == 'swap-next' and l + 2 < len(names):
                    m.swap(l + 1, l + 2)
                elif cont == 'collect-roots-g':
                    # rooted collection: only what hangs below g and is unreferenced may go
                    m.collect_garbage([abs(rg)])
                ext = {u_: c for u_, c in ext.items() if c}
                O.check(m, ext, None, semantic=False)
                if collected:
                    live = O.reachable(m, [r for r, _ in held])
                    if set(m._succ) != live:
                        raise Violation('after collect_garbage() the stored nodes are not '
                                        'exactly those reachable from held references',
                                        extra=len(set(m._succ) - live),
                                        missing=len(live - set(m._succ)))
                den = O.Den(m, U)
                for r, fn_ in held:
                    if den(r) != fn_:
                        raise Violation('a held reference changed denotation (large manager)')
                rep.add('evaluations')
                rep.add('nontrivial')
                rep.max('big_nodes', len(base))
            except Violation as e:
                rec('big:' + e.what, e.what, case, **e.detail)
            except Exception as e:  # noqa
                rec('big-exception:' + type(e).__name__, 'raised %r' % (e,), case)
    if si == 0 and focus is None:
        rep.sample(dict(kind='large manager', variables=len(names), nodes=len(base),
                        continuations=list(conts)))
    return rep


def task_chain(t):
    """A very DEEP diagram: a conjunction chain over N variables (one node per level), built
    bottom-up with find_or_add.  Reference counting and collection must cope with it as with any
    other diagram (they are loops in the library, not recursions)."""
    _, N, _f = t
    rep = run.Report()
    rec = sweep.Rec(rep)
    case = dict(task=t, levels=N)
    try:
        m = S.new_bdd({'v%d' % i: i for i in range(N)})
        u = 1
        for i in reversed(range(N)):
            u = m.find_or_add(i, -1, u)
        m.incref(u)
        w = m.find_or_add(0, u if False else -1, m.find_or_add(1, -1, 1))    # a second small root
        m.incref(w)
        rep.add('evaluations')
        n0 = len(m)
        if n0 < N + 1:
            raise Violation('the chain does not have one node per level', nodes=n0)
        O.check(m, {abs(u): 1, abs(w): 1}, None, semantic=False)
        m.collect_garbage()
        if len(m) != n0:
            raise Violation('collect_garbage() freed referenced nodes of a deep chain')
        m.decref(u)
        m.collect_garbage()
        rep.add('evaluations')
        rep.add('nontrivial')
        live = O.reachable(m, [w])
        if set(m._succ) != live:
            raise Violation('after releasing a deep chain, collect_garbage() does not leave '
                            'exactly the reachable nodes', stored=len(m._succ), reachable=len(live))
        O.check(m, {abs(w): 1}, None, semantic=False)
        # rooted collection of a second chain
        u = 1
        for i in reversed(range(2, N)):
            u = m.find_or_add(i, -1, u)
        m.collect_garbage([abs(u)])
        rep.add('evaluations')
        if set(m._succ) != live:
            raise Violation('a rooted collection of an unreferenced deep chain does not free it')
        O.check(m, {abs(w): 1}, None, semantic=False)
    except Violation as e:
        rec('chain:' + e.what, e.what, case, **e.detail)
    except Exception as e:  # noqa
        rec('chain-exception:' + type(e).__name__, 'raised %r' % (e,), case)
    rep.sample(dict(kind='deep chain', levels=N))
    return rep


def _dispatch_big(t):
    return task_chain(t) if t[0] == 'chain' else task_big(t)


def big_plan(tier):
    ts = [('chain', 1500, None), ('big', 7, 0, 1, None)]
    ts += [('big', 10, si, 8, None) for si in range(8)]
    return ts


def _mach(case):
    for tier in ('thorough', 'quick'):
        for m, _ in machines(tier):
            if list(m.names) == list(case.get('names', m.names)) and m.name == case['machine']:
                return m
    raise KeyError(case)


def replay(case):
    if 'task' in case:
        return sweep.replay_by_task(_dispatch_big)(case)
    m = BddMachine(tuple(case['names']), max_handles=9, max_ext=9, with_sort=True)
    return m.replay(case)


def main(tier, t0):
    rep = run.Report()
    run.pmerge(_dispatch_big, big_plan(tier), rep)
    run.close_pool()
    total = dict(states=0, transitions=0, validated=0)
    layers = {}
    for mach, depth in machines(tier):
        r = run.Report()
        res = bfs(mach, depth, r)
        run.close_pool()
        # tag cases with the names so that replay can rebuild the machine
        for v in r.violations:
            v['case']['names'] = list(mach.names)
        for s in r.samples:
            s['names'] = list(mach.names)
        rep.merge(r)
        for k in total:
            total[k] += res[k]
        layers[mach.name] = dict(
            names=list(mach.names),
            depth_completed=res['completed_depth'], states_per_layer=res['layers'],
            alphabet=sorted({k[4:] for k in r.counts if k.startswith('act:')}))
    cov = dict(
        states=total['states'], transitions=total['transitions'],
        traces_validated_against_impl=total['validated'],
        evaluations=rep.counts.get('evaluations', 0),
        large_manager=('additionally, on managers with ~1 000 and ~7 000 nodes (14 and 20 '
                       'variables): every adjacent swap followed by every continuation of a '
                       'seven-item menu (collections, releases, further swaps), same oracle '
                       'without the pairwise semantic comparison'),
        exhaustive=not rep.caps,
        bounds=layers,
        explanation=(
            'every reachable state of the real dd.bdd.BDD under the listed alphabet up to the '
            'completed depth; in every state: counts == in-degree + ledger (exact), unique '
            'table == inverse of node table, reduced/ordered/no complemented high edge, '
            'stored nodes pairwise semantically distinct, every held reference keeps its '
            'denotation; after collect_garbage(): stored == reachable from held; every '
            'operation result compared with the truth-table model. Traces of the deepest '
            'layer replayed from the public constructor and required to reach the identical '
            'state (exact key).'))
    return run.finish(
        PROP, 'model_checking', tier, rep, t0, cov,
        assumptions=[
            'CPython reference semantics; denotation walker and invariant checker in mc/oracle.py '
            '(independent of assert_consistent)',
            'state key = all instance attributes of the manager in dict insertion order + ledger'],
        replay_fn=replay)
