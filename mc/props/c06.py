"""C06 — garbage collection frees exactly the unreachable nodes; counts stay exact.

Explicit-state BFS over histories of the real dd.bdd.BDD (DESIGN 2/C06).
"""
import time

from .. import run
from ..explore import bfs
from ..machines import BddMachine

PROP = 'C06'


def machines(tier):
    """Several focused alphabets; each is explored exhaustively to its depth."""
    full2 = dict(names=('x', 'y'), max_handles=3, max_ext=2, ops=('and', 'xor'))
    refs2 = dict(names=('x', 'y'), max_handles=3, max_ext=2, ops=('and',),
                 with_ite=False, with_foa=False, with_reorder=False)
    ops2 = dict(names=('x', 'y'), max_handles=2, max_ext=2, ops=('and', 'xor'),
                with_ite=False, with_foa=False)
    xor3 = dict(names=('x', 'y', 'z'), max_handles=2, max_ext=1, ops=('xor',),
                with_ite=False, with_foa=False, seeds=('fresh', 'used'))
    # reorderings to explicit orders / pairs share one level table across swaps and do NOT
    # collect first: histories where garbage is present when they start
    sort3 = dict(names=('x', 'y', 'z'), max_handles=2, max_ext=1, ops=('and',),
                 with_ite=False, with_foa=False, with_refops=True, with_sort=True,
                 with_reorder=False, seeds=('fresh', 'used'))
    full3 = dict(names=('x', 'y', 'z'), max_handles=3, max_ext=2, ops=('and', 'xor'),
                 seeds=('fresh', 'used', 'swapped', 'warm'))
    # a manager with several hundred nodes (node numbers above 256) held as ballast
    big6 = dict(names=('x', 'y', 'z', 'w', 'v', 'u'), max_handles=3, max_ext=1,
                ops=('and', 'xor'), with_ite=False, with_foa=False, seeds=('big',))
    if tier == 'quick':
        plan = [('big6', big6, 2), ('full2', full2, 3), ('refs2', refs2, 5), ('ops2', ops2, 5), ('xor3', xor3, 6),
                ('sort3', sort3, 4)]
    else:
        plan = [('big6', big6, 3), ('full2', full2, 4), ('refs2', refs2, 6), ('ops2', ops2, 6), ('xor3', xor3, 8),
                ('full3', full3, 4), ('sort3', sort3, 5)]
    out = []
    for label, kw, depth in plan:
        kw = dict(kw)
        m = BddMachine(kw.pop('names'), **kw)
        m.name = 'bdd-history/' + label
        out.append((m, depth))
    return out


def _mach(case):
    for tier in ('thorough', 'quick'):
        for m, _ in machines(tier):
            if list(m.names) == list(case.get('names', m.names)) and m.name == case['machine']:
                return m
    raise KeyError(case)


def replay(case):
    m = BddMachine(tuple(case['names']), max_handles=9, max_ext=9, with_sort=True)
    return m.replay(case)


def main(tier, t0):
    rep = run.Report()
    total = dict(states=0, transitions=0, validated=0)
    layers = {}
    for mach, depth in machines(tier):
        r = run.Report()
        res = bfs(mach, depth, r)
        run.close_pool()
        # tag cases with the names so that replay can rebuild the machine
        for v in r.violations:
            v['case']['names'] = list(mach.names)
        for s in r.samples:
            s['names'] = list(mach.names)
        rep.merge(r)
        for k in total:
            total[k] += res[k]
        layers[mach.name] = dict(
            names=list(mach.names),
            depth_completed=res['completed_depth'], states_per_layer=res['layers'],
            alphabet=sorted({k[4:] for k in r.counts if k.startswith('act:')}))
    cov = dict(
        states=total['states'], transitions=total['transitions'],
        traces_validated_against_impl=total['validated'],
        exhaustive=not rep.caps,
        bounds=layers,
        explanation=(
            'every reachable state of the real dd.bdd.BDD under the listed alphabet up to the '
            'completed depth; in every state: counts == in-degree + ledger (exact), unique '
            'table == inverse of node table, reduced/ordered/no complemented high edge, '
            'stored nodes pairwise semantically distinct, every held reference keeps its '
            'denotation; after collect_garbage(): stored == reachable from held; every '
            'operation result compared with the truth-table model. Traces of the deepest '
            'layer replayed from the public constructor and required to reach the identical '
            'state (exact key).'))
    return run.finish(
        PROP, 'model_checking', tier, rep, t0, cov,
        assumptions=[
            'CPython reference semantics; denotation walker and invariant checker in mc/oracle.py '
            '(independent of assert_consistent)',
            'state key = all instance attributes of the manager in dict insertion order + ledger'],
        replay_fn=replay)
