"""C17 — an operation that raises leaves the manager and all references intact.

Fault enumeration: every state of a BFS of valid histories (dd.bdd and dd.autoref,
dynamic reordering off and on) x every fault of the menu. After each rejected call:
independent oracle with the unchanged ledger, all handle denotations, order views;
then differential continuation: every operation of a small valid alphabet must give
the same observable outcome from the faulted state as from an unfaulted copy, and a
final collection must leave the same stored functions.
"""
import json
import os
import pickle
import sys

from .. import env, run, sweep
from .. import oracle as O
from .. import state as S
from ..oracle import Violation
from ..ref import Universe
from ..explore import bfs
from ..machines import BddMachine, St
from .c08 import AutorefMachine, ASt

import dd.bdd as _bdd
import dd.autoref as _autoref
import dd._copy as _copy

PROP = 'C17'

BAD_FORMULAS = [
    'x /\\', '/\\ x', 'x /\\ /\\ y', '(x', 'x )', 'x y', '\\E x x', '\\E : x', 'ite(x, y)',
    'ite(x, y, x', '@', '@ x', 'x <=>', '~', 'x # # y', '\\S x / : y', '', '(* open comment',
    'x /\\ _nope', '\\E _nope: x', '\\S _nope / x: x', '@99999', '@-99999', 'x = y', 'x $ y',
]


OWN_DAMAGE = ('cut', 'dangling', 'neg-high', 'neg-low-root', 'null-child', 'scalar-roots')


def _own_damaged_json(bdd, u, how):
    """JSON dump of the held function `u` of the autoref manager `bdd`, damaged; the nodes of
    the file coincide with nodes that are alive in the manager.  -> file name"""
    fname = 'c17-own-%d.json' % os.getpid()
    bdd.dump(fname, [u])
    lines = open(fname).read().splitlines()
    ks = [k for k, l in enumerate(lines) if l.startswith('"') and '[' in l and
          not l.startswith('"level_of_var"') and not l.startswith('"roots"')]
    if how == 'cut':
        lines = lines[:max(2, len(lines) - 2)]
    elif how == 'scalar-roots':
        # valid JSON, wrong TYPE, noticed only after every node was created
        lines = [('"roots": 7' + (',' if l.rstrip().endswith(',') else ''))
                 if l.startswith('"roots"') else l for l in lines]
    elif not ks:
        lines = lines[:-1]
    else:
        k = ks[-1]
        head, rest = lines[k].split('[', 1)
        tail = ',' if rest.rstrip().endswith(',') else ''
        parts = rest.rstrip().rstrip(',').rstrip(']').split(',')
        if how == 'dangling':
            parts[1] = ' 424242'
        elif how == 'null-child':
            parts[2] = ' null'      # valid JSON, wrong type: the loader fails with a TypeError
        elif how == 'neg-high':
            # the high edge complemented: not a valid node of a BDD with complemented else edges
            hv = parts[2].strip()
            parts[2] = ' ' + (hv[1:] if hv.startswith('-') else (
                '"F"' if hv == '"T"' else '-' + hv))
        else:
            lv = parts[1].strip()
            parts[1] = ' ' + (lv[1:] if lv.startswith('-') else (
                '"F"' if lv == '"T"' else '-' + lv))
            parts[2] = parts[1]
        lines[k] = head + '[' + ','.join(parts) + ']' + tail
    open(fname, 'w').write('\n'.join(lines) + '\n')
    return fname


def _interleaved_pickle(m):
    """A pickle whose variable table interleaves acceptable entries with a conflicting one:
    the first declared variable of `m` at its own level, a NEW variable at a free level beyond
    the bottom, then a new variable at a level that `m` already uses."""
    fname = 'c17-inter-%d.p' % os.getpid()
    names = sorted(m.vars, key=m.vars.get)
    n = len(names)
    if n < 2:
        raise ValueError('fault not applicable in this state')
    vs = {names[0]: 0, '_z9': n + 1, '_y9': 1}
    for k in range(2, n + 1):
        vs['_f%d' % k] = k          # so that the file has n + 2 variables at levels 0..n+1
    d = dict(vars=vs, succ={1: (n + 2, None, None)}, roots=[1])
    with open(fname, 'wb') as f:
        pickle.dump(d, f, protocol=2)
    return fname


def _clean_cwd():
    """Hygiene between fault injections: a scratch directory that an EARLIER rejected call left
    behind (reported there) must not make every later case fail as well."""
    if os.path.isdir('__shelve__'):
        import shutil
        shutil.rmtree('__shelve__', ignore_errors=True)


def _files():
    """Broken files, created once per process in the scratch directory."""
    d = env.scratch_dir()
    key = os.getpid()
    if getattr(_files, 'key', None) == key:
        return _files.val
    out = {}
    src = S.new_autoref({'x': 0, 'y': 1, 'z': 2})
    u = src.add_expr('(x /\\ y) \\/ ~ z')
    good_p = os.path.join(d, 'c17-good.p')
    good_j = os.path.join(d, 'c17-good.json')
    src.dump(good_p, roots=[u])
    src.dump(good_j, roots=[u])
    data = open(good_p, 'rb').read()
    out['truncated.p'] = os.path.join(d, 'c17-trunc.p')
    open(out['truncated.p'], 'wb').write(data[:len(data) // 2])
    out['garbage.p'] = os.path.join(d, 'c17-garbage.p')
    open(out['garbage.p'], 'wb').write(b'not a pickle at all')
    out['missing.p'] = os.path.join(d, 'c17-does-not-exist.p')
    out['missing.json'] = os.path.join(d, 'c17-does-not-exist.json')
    out['wrong.ext'] = os.path.join(d, 'c17-good.xyz')
    open(out['wrong.ext'], 'wb').write(data)
    # pickle whose levels conflict with x<y<z managers: variables in another order
    other = S.new_autoref({'z': 0, 'y': 1, 'x': 2})
    v = other.add_expr('(x /\\ y) \\/ ~ z')
    out['conflict.p'] = os.path.join(d, 'c17-conflict.p')
    other.dump(out['conflict.p'], roots=[v])
    # pickle that references a node absent from the file
    bad = pickle.loads(data)
    k = max(bad['succ'])
    i, lo, hi = bad['succ'][k]
    bad['succ'][k] = (i, lo, 987654)
    out['dangling.p'] = os.path.join(d, 'c17-dangling.p')
    pickle.dump(bad, open(out['dangling.p'], 'wb'), protocol=2)
    lines = open(good_j).read().splitlines()
    cuts = sorted({2, 3, len(lines) // 2, len(lines) - 2, len(lines) - 1})
    for cut in cuts:
        if not (2 <= cut < len(lines)):
            continue
        p = os.path.join(d, 'c17-cut%d.json' % cut)
        open(p, 'w').write('\n'.join(lines[:cut]) + '\n')
        out['cut%d.json' % cut] = p
    # dangling child id in JSON: last node line refers to an unknown id
    node_lines = [i for i, l in enumerate(lines) if l.startswith('"') and '[' in l and
                  not l.startswith('"level_of_var"') and not l.startswith('"roots"')]
    if node_lines:
        i = node_lines[-1]
        bad_lines = list(lines)
        head, rest = bad_lines[i].split('[', 1)
        parts = rest.rstrip(']').split(',')
        parts[1] = ' 424242'
        bad_lines[i] = head + '[' + ','.join(parts) + ']'
        p = os.path.join(d, 'c17-dangling.json')
        open(p, 'w').write('\n'.join(bad_lines) + '\n')
        out['dangling.json'] = p
    out['notjson.json'] = os.path.join(d, 'c17-not.json')
    open(out['notjson.json'], 'w').write('{\n"level_of_var": {"x": 0},\nthis is not json\n}\n')
    _files.key = key
    _files.val = out
    del u, v
    return out


def bdd_faults(m, refs, names):
    """(label, thunk) for a dd.bdd.BDD `m`; refs = list of held signed nodes."""
    u = refs[0] if refs else 1
    v = refs[-1] if refs else -1
    x = names[0]
    y = names[-1]
    n = len(m.vars)
    files = _files()
    other = S.new_bdd({'_o': 0})
    ou = other.var('_o')
    lacking = S.new_bdd({x: 0})
    F = []
    A = F.append
    A(('var undeclared', lambda: m.var('_nope')))
    for k, s in enumerate(BAD_FORMULAS):
        A(('add_expr bad #%d' % k, (lambda s: lambda: m.add_expr(s))(s)))
    A(('let const undeclared', lambda: m.let({'_nope': True}, u)))
    A(('let rename undeclared key', lambda: m.let({'_nope': x}, u)))
    A(('let rename undeclared value', lambda: m.let({x: '_nope'}, u)))
    A(('let fn undeclared', lambda: m.let({'_nope': v}, u)))
    A(('let fn unknown node', lambda: m.let({x: 99999}, u)))
    A(('let unknown u', lambda: m.let({x: True}, 99999)))
    A(('let bad value type', lambda: m.let({x: 1.5}, u)))
    A(('let mixed', lambda: m.let({x: v, y: '_nope'}, u)))
    A(('quantify undeclared', lambda: m.quantify(u, {'_nope'})))
    A(('quantify unknown node', lambda: m.quantify(99999, {x})))
    A(('exist mixed', lambda: m.exist([x, '_nope'], u)))
    A(('cube undeclared', lambda: m.cube({x: True, '_nope': False})))
    A(('apply unknown node', lambda: m.apply('and', u, 99999)))
    A(('apply unknown node 1st', lambda: m.apply('or', 99999, u)))
    A(('apply unknown op', lambda: m.apply('nand', u, v)))
    A(('apply arity unary+2', lambda: m.apply('not', u, v)))
    A(('apply arity binary-1', lambda: m.apply('and', u)))
    A(('apply arity binary+1', lambda: m.apply('and', u, v, u)))
    A(('apply arity ternary-1', lambda: m.apply('ite', u, v)))
    A(('apply ite unknown w', lambda: m.apply('ite', u, v, 99999)))
    A(('apply quantifier unknown', lambda: m.apply('\\E', u, 99999)))
    A(('ite unknown g', lambda: m.ite(99999, u, v)))
    A(('ite unknown u', lambda: m.ite(u, 99999, v)))
    A(('ite unknown v', lambda: m.ite(u, v, 99999)))
    A(('count unknown', lambda: m.count(99999)))
    A(('count too few', lambda: m.count(u, -1) if abs(u) == 1 else m.count(
        u, len(m.support(u)) - 1)))
    A(('pick_iter unknown', lambda: list(m.pick_iter(99999))))
    A(('to_expr unknown', lambda: m.to_expr(99999)))
    A(('_add_int unknown', lambda: m._add_int(99999)))
    A(('_add_int zero', lambda: m._add_int(0)))
    A(('support unknown', lambda: m.support(99999)))
    A(('find_or_add unknown low', lambda: m.find_or_add(0, 99999, u)))
    A(('find_or_add unknown high', lambda: m.find_or_add(0, u, 99999)))
    A(('find_or_add level<0', lambda: m.find_or_add(-1, u, v)))
    A(('find_or_add level>=n', lambda: m.find_or_add(n, u, v)))
    A(('incref unknown', lambda: m.incref(99999)))
    A(('decref unknown', lambda: m.decref(99999)))
    A(('add_var conflicting level', lambda: m.add_var(x, m.vars[x] + 1)))
    A(('add_var used level', lambda: m.add_var('_new', 0)))
    A(('add_var negative level', lambda: m.add_var('_new', -2)))
    A(('reorder missing name', lambda: _bdd.reorder(m, {x: 0})))
    A(('reorder extra name', lambda: _bdd.reorder(m, dict(
        {k: i for i, k in enumerate(m.vars)}, _extra=n))))
    A(('reorder duplicate level', lambda: _bdd.reorder(m, {k: 0 for k in m.vars})))
    A(('reorder unknown names', lambda: _bdd.reorder(m, {'_q%d' % i: i for i in range(n)})))
    A(('swap non-adjacent', lambda: m.swap(0, 2)))
    A(('swap same', lambda: m.swap(0, 0)))
    A(('swap negative', lambda: m.swap(-1, 0)))
    A(('swap beyond', lambda: m.swap(n - 1, n)))
    A(('swap unknown name', lambda: m.swap('_nope', x)))
    A(('undeclare unknown', lambda: m.undeclare_vars('_nope')))
    A(('undeclare used', lambda: _undeclare_used(m)))
    A(('load missing', lambda: m.load(files['missing.p'])))
    A(('load wrong ext', lambda: m.load(files['wrong.ext'])))
    A(('load truncated', lambda: m.load(files['truncated.p'])))
    A(('load garbage', lambda: m.load(files['garbage.p'])))
    A(('load level conflict', lambda: m.load(files['conflict.p'], levels=True)))
    A(('load dangling', lambda: m.load(files['dangling.p'], levels=False)))
    A(('load interleaved conflict', lambda: m.load(_interleaved_pickle(m), levels=True)))
    for how, flag in (('cut', False), ('dangling', True), ('neg-high', False),
                      ('neg-high', True), ('neg-low-root', True), ('null-child', False),
                      ('null-child', True), ('scalar-roots', True)):
        A(('load own damaged json %s %s' % (how, flag),
           (lambda how, flag: lambda: _load_own(m, u, how, flag))(how, flag)))
    if refs:
        for k, s in enumerate(NODE_FORMULAS):
            A(('add_expr bad @ #%d' % k,
               (lambda s: lambda: m.add_expr(s.format(n=u, m=v)))(s)))
    A(('dump unknown ext', lambda: m.dump('c17-out.xyz', roots=[u])))
    A(('dump unknown root', lambda: m.dump('c17-out.p', roots=[99999])))
    A(('copy into lacking', lambda: _bdd.copy_bdd(u, m, lacking)))
    A(('copy from foreign vars', lambda: _bdd.copy_bdd(ou, other, m)))
    A(('image overlap', lambda: _bdd.image(u, v, {x: y, y: x}, {x}, m)))
    A(('image precondition', lambda: _image_pre(m, u, v, x, y)))
    A(('preimage overlap', lambda: _bdd.preimage(u, v, {x: y, y: x}, {x}, m)))
    A(('preimage unknown qvars', lambda: _bdd.preimage(u, v, {x: y}, {'_nope'}, m)))
    A(('rename unknown node', lambda: _bdd.rename(99999, m, {x: y})))
    A(('descendants unknown', lambda: m.descendants([99999])))
    A(('to_nx unknown', lambda: _bdd.to_nx(m, [99999])))
    A(('configure unknown', lambda: m.configure(bogus=1)))
    A(('is_essential unknown node', lambda: m.is_essential(99999, x)))
    A((FULL, lambda: _full(m, u, v, names)))
    return F


FULL = 'node creation in a full manager'
F18 = 'full-manager-inside-dynamic-reordering'


def _full(m, u, v, names):
    # `max_nodes` reached: the call that needs one more node is refused
    old = m.max_nodes
    m.max_nodes = m._min_free + 1
    try:
        for nm in names:
            m.var(nm)
        m.apply('xor', u, v)
        m.apply('and', u, -v)
        m.apply('or', u, m.var(names[-1]))
        raise ValueError('no node was created: fault not applicable in this state')
    finally:
        m.max_nodes = old


# rejected formulas with a VALID @node operand before the offending token
NODE_FORMULAS = ['@{n} /\\ _nope', '@{n} /\\ /\\ @{m}', 'ite(@{n}, @{m})', '\\E _nope: @{n}',
                 '@{n} \\/ @99999', '~ @{m} => (@{n} # )']


def _load_own(m, u, how, flag):
    a = S.autoref_around(m)
    f = a._add_int(u)
    fname = _own_damaged_json(a, f, how)
    del f
    try:
        return _copy.load_json(fname, a, load_order=flag)
    finally:
        os.remove(fname)


def _undeclare_used(m):
    full = {i for (i, _, _) in m._succ.values()}
    for v_, l in m.vars.items():
        if l in full:
            return m.undeclare_vars(v_)
    raise ValueError('no used variable in this state (fault not applicable)')


def _image_pre(m, u, v, x, y):
    # rename target y neither quantified nor absent: applicable only if u or v depends on y
    if y not in m.support(u) | m.support(v) or x == y:
        raise ValueError('fault not applicable in this state')
    return _bdd.image(u, v, {x: y}, set(), m)


CONT = ['var', 'and', 'xor', 'ite', 'let', 'exist', 'expr', 'collect', 'swap', 'reorder',
        'count', 'to_expr', 'pick', 'json', 'pickle']
FILE_CONT = ('json', 'pickle')      # always run after a fault that involves files


def continuation(m, refs, names, U, c):
    """Observable outcome of a valid operation (mask / value / exception class)."""
    den = O.Den(m, U)
    u = refs[0] if refs else 1
    v = refs[-1] if refs else -1
    try:
        if c == 'var':
            return den(m.var(names[-1]))
        if c == 'and':
            return den(m.apply('and', u, v))
        if c == 'xor':
            return den(m.apply('xor', u, -v))
        if c == 'ite':
            return den(m.ite(u, v, -u))
        if c == 'let':
            return den(m.let({names[0]: False}, u))
        if c == 'exist':
            return den(m.exist([names[0]], u))
        if c == 'expr':
            return den(m.add_expr('%s /\\ ~ %s' % (names[0], names[-1])))
        if c == 'collect':
            m.collect_garbage()
            return [O.Den(m, U)(r) for r in refs]
        if c == 'swap':
            m.swap(0, 1)
            return [O.Den(m, U)(r) for r in refs]
        if c == 'reorder':
            _bdd.reorder(m)
            return [O.Den(m, U)(r) for r in refs]
        if c == 'count':
            return m.count(u)
        if c == 'to_expr':
            # the text depends on the variable order (which a failing call may have changed)
            return den(m.add_expr(m.to_expr(u)))
        if c == 'pick':
            p = m.pick(u)
            if p is None:
                return None
            return bool(U.cube_mask(p) & ~den(u) & U.full == 0)
        if c == 'pickle':
            fname = 'c17-cont-%d.p' % os.getpid()
            m.dump(fname, roots=[u])
            back = m.load(fname)
            os.remove(fname)
            return den(back[0])
        if c == 'json':
            fname = 'c17-cont-%d.json' % os.getpid()
            a = S.autoref_around(m)
            f = a._add_int(u)
            a.dump(fname, [f])
            back = a.load(fname)
            os.remove(fname)
            r = den(back[0].node)
            del back, f
            return r
    except Exception as e:  # noqa
        return 'EXC:' + type(e).__name__ + ':' + str(e)[:60]
    raise KeyError(c)


class FaultBdd(BddMachine):
    """Valid histories of dd.bdd; faults are injected in `invariant` of every state."""

    def step_invariant(self, st):
        # replay: the queries of the plain invariant, not the fault injection (done on copies)
        BddMachine.step_invariant(self, st)

    def __init__(self, *a, reordering=None, forced=(), light=False, **kw):
        super().__init__(*a, **kw)
        # the broken files mention x, y, z: a failing load may have declared them already
        self.U = Universe(tuple(dict.fromkeys(tuple(self.names) + ('x', 'y', 'z'))))
        self.reordering = reordering
        self.forced = forced
        self.light = light

    def seed(self, label):
        st = super().seed(label)
        if self.reordering is not None:
            st.m.configure(reordering=True)
            st.m._last_len = self.reordering
        return st

    def invariant(self, st):
        super().invariant(st)
        self.inject_all(st)

    def inject_all(self, st):
        blob = pickle.dumps(st, pickle.HIGHEST_PROTOCOL)
        probe = pickle.loads(blob)
        labels = [l for l, _ in bdd_faults(probe.m, [e[0] for e in probe.h], self.names)]
        plans = [()]
        for k in self.forced:
            plans.append((k,))
        for fi, label in enumerate(labels):
            for plan in plans:
                if label == FULL and self.reordering is not None:
                    # known finding F18: judged, recorded under its own signature, and the
                    # state is explored further
                    try:
                        self.inject(blob, fi, label, plan)
                    except Violation as v:
                        if self.rep is not None:
                            self.rep.violation(
                                F18, v.what, dict(machine=self.name, fault=label,
                                                  plan=list(plan)), **v.detail)
                            self.rep.mark('full_inside_reordering', v.what)
                    continue
                self.inject(blob, fi, label, plan)

    def inject(self, blob, fi, label, plan):
        rep = self.rep
        _clean_cwd()
        st = pickle.loads(blob)
        m = st.m
        refs = [e[0] for e in st.h]
        thunk = bdd_faults(m, refs, self.names)[fi][1]
        key0 = None
        raised = None
        cfg0 = m.configure()
        seam = None
        if plan:
            from .c09 import Seam
            seam = Seam()
            if not seam.available() or getattr(m, '_last_len', None) is None:
                return
        try:
            if seam is not None:
                with seam:
                    seam.arm(plan)
                    try:
                        thunk()
                    finally:
                        seam.disarm()
            else:
                thunk()
        except Exception as e:  # noqa
            raised = type(e).__name__
            msg = str(e)
            del e
        if rep is not None:
            rep.add('faults_injected')
        if raised is None:
            if rep is not None:
                rep.add('faults_accepted_without_exception')
            return
        if 'not applicable' in msg:
            return
        if rep is not None:
            rep.add('faults_raised')
            rep.mark('fault_kinds', label)
            rep.mark('exception_classes', raised)
        if raised == '_NeedsReordering':
            raise Violation('the internal reordering signal reached the caller of a failing call',
                            fault=label, plan=list(plan))
        # right after the exception
        if m.configure() != cfg0:
            raise Violation('a rejected call changed the configuration of the manager '
                            '(dynamic reordering switched %s)' % (
                                'off' if cfg0.get('reordering') else 'on'),
                            fault=label, exception=raised, plan=list(plan))
        try:
            BddMachine.invariant(self, st)
        except Violation as v:
            raise Violation('after a rejected call: ' + v.what, fault=label, exception=raised,
                            plan=list(plan), **v.detail)
        # differential continuation (light mode: a rotating subset per state and fault)
        h = sum(blob[-8:]) + fi
        conts = CONT
        if self.light:
            if h % 3:
                return
            conts = [CONT[(h + 5 * k) % len(CONT)] for k in range(3)]
        if not plan and any(w in label for w in ('load', 'dump', 'json', 'pickle')):
            # one dump+load of the same kind of file as the rejected call touched
            kind_ = 'json' if 'json' in label else 'pickle'
            conts = list(dict.fromkeys(list(conts) + [kind_]))
        for c in conts:
            a = pickle.loads(pickle.dumps(st, pickle.HIGHEST_PROTOCOL))
            b = pickle.loads(blob)
            ra = continuation(a.m, [e[0] for e in a.h], self.names, self.U, c)
            if c in FILE_CONT:
                # the working directory is shared by both sides: compare with what a dump
                # followed by a load must give (the same function), not with a second run
                rb = O.Den(b.m, self.U)(b.h[0][0] if b.h else 1)
            else:
                rb = continuation(b.m, [e[0] for e in b.h], self.names, self.U, c)
            if rep is not None:
                rep.add('continuations')
            if ra != rb:
                raise Violation('after a rejected call a valid operation behaves differently',
                                fault=label, exception=raised, continuation=c,
                                faulted=repr(ra)[:80], unfaulted=repr(rb)[:80], plan=list(plan))
            for side, s2 in (('faulted', a), ('unfaulted', b)):
                s2.m.collect_garbage()
            fa = sorted(O.Den(a.m, self.U)(k) for k in a.m._succ)
            fb = sorted(O.Den(b.m, self.U)(k) for k in b.m._succ)
            # (the failing call may legitimately have reordered: internal nodes then differ)
            if fa != fb and dict(a.m.vars) == dict(b.m.vars):
                raise Violation('after a rejected call and a valid operation a collection leaves '
                                'different functions', fault=label, continuation=c)
            try:
                BddMachine.invariant(self, a)
            except Violation as v:
                raise Violation('after a rejected call and a valid operation: ' + v.what,
                                fault=label, continuation=c, **v.detail)

    def signature(self, v, action):
        return '%s|%s' % (v.what, v.detail.get('fault', action[0]))


# ------------------------------------------------------------------ autoref

def autoref_faults(st, names):
    bdd = st.bdd
    fns = st.fns
    u = fns[0] if fns else bdd.true
    v = fns[-1] if fns else bdd.false
    x, y = names[0], names[-1]
    files = _files()
    other = S.new_autoref({'_o': 0, x: 1})
    ou = other.var('_o')
    ox = other.var(x)
    F = []
    A = F.append
    A(('var undeclared', lambda: bdd.var('_nope')))
    for k in (0, 2, 5, 9, 16, 18, 21):
        A(('add_expr bad #%d' % k, (lambda s: lambda: bdd.add_expr(s))(BAD_FORMULAS[k])))
    A(('foreign apply', lambda: bdd.apply('and', u, ox)))
    A(('foreign apply 1st', lambda: bdd.apply('and', ox, u)))
    A(('foreign operator &', lambda: u & ox))
    A(('foreign operator |', lambda: ox | u))
    A(('foreign ==', lambda: u == ox))
    A(('foreign <=', lambda: u <= ox))
    A(('foreign implies', lambda: u.implies(ox)))
    A(('foreign ite', lambda: bdd.ite(u, ox, v)))
    A(('foreign let u', lambda: bdd.let({x: True}, ox)))
    A(('foreign quantify', lambda: bdd.quantify(ox, {x})))
    A(('foreign count', lambda: bdd.count(ox)))
    A(('foreign pick_iter', lambda: list(bdd.pick_iter(ox))))
    A(('foreign to_expr', lambda: bdd.to_expr(ox)))
    A(('foreign support', lambda: bdd.support(ox)))
    A(('foreign copy', lambda: bdd.copy(ox, other)))
    A(('foreign contains', lambda: ox in bdd))
    A(('copy lacking var', lambda: other.copy(ou, bdd)))
    A(('copy lacking var 2', lambda: _autoref.copy_bdd(ou, bdd)))
    A(('copy lacking var 3', lambda: _copy.copy_bdd(ou, bdd)))
    A(('_add_int unknown', lambda: bdd._add_int(99999)))
    A(('let mixed', lambda: bdd.let({x: u, y: True}, v)))
    A(('let bad type', lambda: bdd.let({x: 3.5}, u)))
    A(('let undeclared', lambda: bdd.let({'_nope': u}, v)))
    A(('let rename undeclared', lambda: bdd.let({x: '_nope'}, u)))
    A(('Function.let undeclared', lambda: u.let(_nope=True)))
    A(('exist undeclared', lambda: u.exist('_nope')))
    A(('cube undeclared', lambda: bdd.cube({'_nope': True, x: False})))
    A(('apply unknown op', lambda: bdd.apply('nor', u, v)))
    A(('apply arity', lambda: bdd.apply('not', u, v)))
    A(('apply arity w only', lambda: bdd.apply('ite', u, None, v)))
    A(('find_or_add undeclared', lambda: bdd.find_or_add('_nope', u, v)))
    A(('add_var conflict', lambda: bdd.add_var(x, bdd.vars[x] + 1)))
    A(('add_var used level', lambda: bdd.add_var('_new', 0)))
    A(('reorder bad', lambda: bdd.reorder({x: 0})))
    A(('reorder duplicate', lambda: bdd.reorder({k: 0 for k in bdd.vars})))
    A(('count too few', lambda: bdd.count(u, len(bdd.support(u)) - 1)))
    A(('dump json no roots', lambda: bdd.dump('c17-a.json')))
    A(('dump unknown ext', lambda: bdd.dump('c17-a.xyz', roots=[u])))
    A(('dump bad filetype', lambda: bdd.dump('c17-a.p', roots=[u], filetype='tiff')))
    A(('load missing p', lambda: bdd.load(files['missing.p'])))
    A(('load missing json', lambda: bdd.load(files['missing.json'])))
    A(('load wrong ext', lambda: bdd.load(files['wrong.ext'])))
    A(('load truncated p', lambda: bdd.load(files['truncated.p'])))
    A(('load conflict p', lambda: bdd.load(files['conflict.p'])))
    A(('load dangling p', lambda: bdd.load(files['dangling.p'], levels=False)))
    for k in sorted(files):
        if k.endswith('.json') and k != 'missing.json':
            A(('load ' + k, (lambda p: lambda: bdd.load(p))(files[k])))
            A(('load_json order ' + k,
               (lambda p: lambda: _copy.load_json(p, bdd, load_order=True))(files[k])))
    A(('load interleaved conflict', lambda: bdd.load(_interleaved_pickle(bdd._bdd))))
    for how in OWN_DAMAGE:
        if how != 'dangling':
            A(('load own damaged json ' + how,
               (lambda how: lambda: bdd.load(_own_damaged_json(bdd, u, how)))(how)))
        if how != 'cut':
            A(('load_json order own damaged json ' + how,
               (lambda how: lambda: _copy.load_json(_own_damaged_json(bdd, u, how), bdd,
                                                    load_order=True))(how)))
    for k, s_ in enumerate(NODE_FORMULAS):
        A(('add_expr bad @ #%d' % k,
           (lambda s_: lambda: bdd.add_expr(s_.format(n=int(u), m=int(v))))(s_)))
    A(('image foreign', lambda: _autoref.image(u, ox, {x: y}, {x})))
    A(('preimage overlap', lambda: _autoref.preimage(u, v, {x: y, y: x}, {x})))
    A(('Function ctor unknown', lambda: _autoref.Function(99999, bdd)))
    return F


class FaultAutoref(AutorefMachine):
    light = True

    def invariant(self, st):
        super().invariant(st)
        blob = pickle.dumps(st, pickle.HIGHEST_PROTOCOL)
        probe = pickle.loads(blob)
        n = len(autoref_faults(probe, self.names))
        del probe
        plans = [()] + [(k,) for k in self.forced]
        for fi in range(n):
            for plan in plans:
                self.inject(blob, fi, plan)

    def inject(self, blob, fi, plan):
        rep = self.rep
        _clean_cwd()
        st = pickle.loads(blob)
        label, thunk = autoref_faults(st, self.names)[fi]
        cfg0 = st.bdd.configure()
        seam = None
        if plan:
            from .c09 import Seam
            seam = Seam()
            if not seam.available() or getattr(st.m, '_last_len', None) is None:
                return
        raised = None
        msg = ''
        try:
            if seam is not None:
                with seam:
                    seam.arm(plan)
                    try:
                        r = thunk()
                    finally:
                        seam.disarm()
            else:
                r = thunk()
            r = None
        except Exception as e:  # noqa
            raised = type(e).__name__
            msg = str(e)
            del e
        del thunk
        if rep is not None:
            rep.add('faults_injected')
        if raised is None:
            if rep is not None:
                rep.add('faults_accepted_without_exception')
            return
        if rep is not None:
            rep.add('faults_raised')
            rep.mark('fault_kinds', 'autoref ' + label)
            rep.mark('exception_classes', raised)
        if raised == '_NeedsReordering':
            raise Violation('the internal reordering signal reached the caller of a failing call',
                            fault=label, plan=list(plan))
        if st.bdd.configure() != cfg0:
            raise Violation('a rejected call changed the configuration of the manager '
                            '(dynamic reordering switched %s)' % (
                                'off' if cfg0.get('reordering') else 'on'),
                            fault=label, exception=raised, plan=list(plan))
        try:
            try:
                AutorefMachine._invariant(self, st)
            except Violation:
                env.settle()     # a pending finaliser may still hold a Function
                AutorefMachine._invariant(self, st)
        except Violation as v:
            raise Violation('after a rejected call: ' + v.what, fault=label, exception=raised,
                            plan=list(plan), **v.detail)
        # continuation: a few valid operations, compared with an unfaulted copy
        allc = ('and', 'not', 'var', 'collect', 'reorder', 'add_expr', 'json', 'pickle')
        h = sum(blob[-8:]) + fi
        conts = allc if not self.light else [allc[(h + 3 * k) % len(allc)] for k in range(2)]
        if not plan and any(w in label for w in ('load', 'dump', 'json', 'pickle')):
            # one dump+load of the same kind of file as the rejected call touched
            kind_ = 'json' if 'json' in label else 'pickle'
            conts = list(dict.fromkeys(list(conts) + [kind_]))
        for c in conts:
            a = pickle.loads(pickle.dumps(st, pickle.HIGHEST_PROTOCOL))
            b = pickle.loads(blob)
            ra = self._cont(a, c)
            if c in FILE_CONT:
                rb = O.Den(b.m, self.U)(b.fns[0] if b.fns else b.bdd.true)
            else:
                rb = self._cont(b, c)
            if rep is not None:
                rep.add('continuations')
            if ra != rb:
                raise Violation('after a rejected call a valid operation behaves differently',
                                fault=label, exception=raised, continuation=c,
                                faulted=repr(ra)[:80], unfaulted=repr(rb)[:80])
            try:
                AutorefMachine._invariant(self, a, shutdown=False)
            except Violation as v:
                raise Violation('after a rejected call and a valid operation: ' + v.what,
                                fault=label, continuation=c, **v.detail)

    def _cont(self, st, c):
        U = self.U
        bdd = st.bdd
        u = st.fns[0] if st.fns else bdd.true
        v = st.fns[-1] if st.fns else bdd.false
        den = O.Den(st.m, U)
        try:
            if c == 'and':
                r = u & v
            elif c == 'not':
                r = ~u
            elif c == 'var':
                r = bdd.var(self.names[-1])
            elif c == 'add_expr':
                r = bdd.add_expr('%s \\/ %s' % (self.names[0], self.names[-1]))
            elif c == 'collect':
                bdd.collect_garbage()
                return [O.Den(st.m, U)(f) for f in st.fns]
            elif c in FILE_CONT:
                fname = 'c17-cont-%d.%s' % (os.getpid(), 'p' if c == 'pickle' else 'json')
                bdd.dump(fname, [u])
                back = bdd.load(fname)
                os.remove(fname)
                r = back[0]
                del back
            else:
                bdd.reorder()
                return [O.Den(st.m, U)(f) for f in st.fns]
            st.fns.append(r)
            st.masks.append(den(r))
            return den(r)
        except Exception as e:  # noqa
            return 'EXC:' + type(e).__name__ + ':' + str(e)[:60]

    def signature(self, v, action):
        return '%s|%s' % (v.what, v.detail.get('fault', action[0]))


# ------------------------------------------------------------------ token-position sweep

VALID = [
    'x /\\ y', 'x \\/ ~ y', '(x => y) <=> z', 'ite(x, y, z)', '\\E x, y: (x /\\ z)',
    '\\A z: (x # z)', '\\S y / x: (x - z)', 'x & (y | !z)', '~ (x ^ y) -> z', 'TRUE /\\ x',
]


def _tokens(s):
    import re
    return re.findall(r'\\[AES]|<=>|<->|=>|->|/\\|\\/|&&|\|\||[A-Za-z_][A-Za-z0-9_]*|\S', s)


def task_tokens(t):
    """Delete / duplicate / replace the token at every position of valid formulas."""
    _, which, focus = t
    rep = run.Report()
    rec = sweep.Rec(rep)
    names = ('x', 'y', 'z')
    U = Universe(names)
    mach = FaultBdd(names, max_handles=3, max_ext=1)
    base = mach.seed('used')
    base.m.apply('or', base.h[0][0], base.h[1][0])      # some garbage, warm cache
    if which == 'dyn':
        base.m.configure(reordering=True)
        base.m._last_len = 3.0
    blob = pickle.dumps(base, pickle.HIGHEST_PROTOCOL)
    repl = [')', '/\\', 'w_undeclared', '', ':', ',']
    for fi, formula in enumerate(VALID):
        toks = _tokens(formula)
        for pos in range(len(toks) + 1):
            variants = []
            if pos < len(toks):
                variants.append(('delete', toks[:pos] + toks[pos + 1:]))
                variants.append(('duplicate', toks[:pos] + [toks[pos]] + toks[pos:]))
                for r_ in repl:
                    variants.append(('replace:' + r_, toks[:pos] + [r_] + toks[pos + 1:]))
            else:
                for r_ in repl[:3]:
                    variants.append(('append:' + r_, toks + [r_]))
            for how, tk in variants:
                s = ' '.join(x_ for x_ in tk if x_)
                case = dict(task=t, formula=formula, position=pos, edit=how, text=s)
                st = pickle.loads(blob)
                raised = None
                try:
                    st.m.add_expr(s)
                except Exception as e:  # noqa
                    raised = type(e).__name__
                    del e
                rep.add('evaluations')
                if raised is None:
                    rep.add('edits_still_valid')
                    continue
                rep.add('nontrivial')
                try:
                    if raised == '_NeedsReordering':
                        raise Violation('the internal reordering signal reached the caller')
                    BddMachine.invariant(mach, st)
                    # the parser is a module-level singleton: it must still work
                    r = st.m.add_expr('x /\\ ~ z')
                    if O.Den(st.m, U)(r) != (U.var('x') & U.neg(U.var('z'))):
                        raise Violation('after a syntax error the next formula is parsed wrongly')
                    BddMachine.invariant(mach, st)
                except Violation as v:
                    rec('tokens:' + v.what, v.what, case, exception=raised, **v.detail)
                except Exception as e:  # noqa
                    rec('tokens-next-raises:' + type(e).__name__,
                        'after a syntax error a valid formula raised %r' % (e,), case)
    rep.sample(dict(kind='token edit', formula=VALID[4], position=3, edit='replace:)',
                    manager='dd.bdd, reordering ' + which))
    return rep


# ------------------------------------------------------------------ interruption sweep

def _interrupt_ops(names):
    """Valid operations (label, thunk(m, refs) -> reference / list / None)."""
    a, b, c = names[0], names[1], names[-1]
    rev = {n: len(names) - 1 - i for i, n in enumerate(names)}

    def _copy_out(m, u):
        other = S.new_bdd({n: i for i, n in enumerate(reversed(names))})
        _bdd.copy_bdd(u, m, other)

    def _dump_load(m, u):
        fname = 'c17-int-%d.p' % os.getpid()
        try:
            m.dump(fname, roots=[u])
            return m.load(fname)[0]
        finally:
            if os.path.exists(fname):
                os.remove(fname)

    def _release(m, v):
        m.decref(v)
        m.collect_garbage()
    return [
        ('and', lambda m, u, v: m.apply('and', u, -v)),
        ('xor', lambda m, u, v: m.apply('xor', u, v)),
        ('ite', lambda m, u, v: m.ite(u, -v, m.var(c))),
        ('exist', lambda m, u, v: m.exist({a}, m.apply('or', u, v))),
        ('forall', lambda m, u, v: m.forall([b], u)),
        ('let fn', lambda m, u, v: m.let({a: v}, u)),
        ('let const', lambda m, u, v: m.let({b: True}, u)),
        ('let rename', lambda m, u, v: m.let({a: c}, m.exist({c}, u))),
        ('add_expr', lambda m, u, v: m.add_expr('(%s \\/ ~ %s) /\\ (%s => %s)' % (a, c, b, a))),
        ('add_expr @', lambda m, u, v: m.add_expr('@%d # %s' % (u, c))),
        ('cube', lambda m, u, v: m.cube({a: True, c: False})),
        ('var', lambda m, u, v: m.var(c)),
        ('find_or_add', lambda m, u, v: m.find_or_add(m.vars[c], -1, 1)),
        ('swap', lambda m, u, v: m.swap(0, 1)),
        ('swap low', lambda m, u, v: m.swap(len(names) - 2, len(names) - 1)),
        ('sift', lambda m, u, v: _bdd.reorder(m)),
        ('reorder', lambda m, u, v: _bdd.reorder(m, rev)),
        ('collect', lambda m, u, v: m.collect_garbage()),
        ('release+collect', _release),
        ('copy out', lambda m, u, v: _copy_out(m, u)),
        ('dump+load', lambda m, u, v: _dump_load(m, u)),
        ('add_var', lambda m, u, v: m.add_var('_fresh')),
        ('undeclare', lambda m, u, v: m.undeclare_vars()),
        ('count', lambda m, u, v: m.count(u, len(names)) and None),
        ('pick_iter', lambda m, u, v: list(m.pick_iter(u)) and None),
        ('to_expr', lambda m, u, v: m.to_expr(u) and None),
        ('support', lambda m, u, v: m.support(v) and None),
        ('descendants', lambda m, u, v: m.descendants([u, v]) and None),
        ('image', lambda m, u, v: _bdd.image(u, v, {a: c}, {c}, m)),
    ]


INTERRUPT_DEPTHS = 120


def _with_limit(d, fn):
    """Run fn() with room for exactly d more Python frames than this one."""
    import inspect
    old = sys.getrecursionlimit()
    hook = sys.unraisablehook
    here = len(inspect.stack(0))
    # a generator finalised while the stack is at the limit cannot be closed; the report of
    # that needs a frame too: a C-level callable takes it (what matters is judged afterwards)
    sys.unraisablehook = id
    sys.setrecursionlimit(here + d)
    try:
        return fn()
    finally:
        sys.setrecursionlimit(old)
        sys.unraisablehook = hook


def task_interrupt(t):
    """A valid call cut short by RecursionError at EVERY depth it can be cut at.

    The call is given room for d = 2, 3, ... more frames until it succeeds; after each
    interrupted attempt the manager is judged like after any rejected call, the same call
    is repeated with the normal limit and compared with an uninterrupted copy, then a
    collection and the invariant again."""
    _, which, seedlabel, focus = t
    rep = run.Report()
    rec = sweep.Rec(rep)
    import itertools as _it
    seedlabel, _, pi = seedlabel.partition(':')
    names = list(_it.permutations(('x', 'y', 'z', 'w')))[int(pi or 0)]
    mach = FaultBdd(names, max_handles=3, max_ext=1)
    U = mach.U
    base = mach.seed(seedlabel)
    base.m.apply('or', base.h[0][0], base.h[1][0])      # some garbage, warm cache
    if which == 'dyn':
        base.m.configure(reordering=True)
        base.m._last_len = 2.0
    blob = pickle.dumps(base, pickle.HIGHEST_PROTOCOL)
    for label, op in _interrupt_ops(names):
        if focus is not None and focus[0] != label:
            continue
        # the uninterrupted outcome
        ref_ = pickle.loads(blob)
        want_exc = None
        try:
            r0 = op(ref_.m, ref_.h[0][0], ref_.h[1][0])
        except Exception as e:  # noqa
            want_exc = type(e).__name__
            r0 = None
            del e
        if want_exc is not None:
            continue        # not a valid call in this state (e.g. nothing to undeclare)
        want = O.Den(ref_.m, U)(r0) if isinstance(r0, int) and not isinstance(r0, bool) else None
        cut = 0
        for d in range(2, INTERRUPT_DEPTHS):
            if focus is not None and focus[1] != d:
                continue
            st = pickle.loads(blob)
            u, v = st.h[0][0], st.h[1][0]
            raised = None
            try:
                _with_limit(d, lambda: op(st.m, u, v))
            except Exception as e:  # noqa
                raised = type(e).__name__
                del e
            rep.add('evaluations')
            if raised is None:
                if focus is None:
                    break
                continue
            cut += 1
            rep.add('nontrivial')
            rep.mark('exception_classes', raised)
            case = dict(task=(t[0], which, t[2], [label, d]), operation=label, frames=d,
                        exception=raised)
            if label == 'release+collect':
                # the release itself may or may not have happened: settle it
                if st.m._ref[abs(v)] == ref_count(blob, v):
                    st.m.decref(v)
                st.h[1][1] = 0
            try:
                if raised == '_NeedsReordering':
                    raise Violation('the internal reordering signal reached the caller')
                BddMachine.invariant(mach, st)
                if label != 'release+collect':
                    st.m.configure(reordering=False)
                    r = op(st.m, u, v)
                    if want is not None and O.Den(st.m, U)(r) != want:
                        raise Violation('a call repeated after an interruption gives another '
                                        'function than the uninterrupted call')
                st.m.collect_garbage()
                BddMachine.invariant(mach, st)
            except Violation as v_:
                rec('interrupt:' + v_.what + '|' + label, 'after an interrupted call: ' + v_.what,
                    case, **v_.detail)
            except Exception as e:  # noqa
                rec('interrupt-next-raises:' + type(e).__name__ + '|' + label,
                    'after an interrupted call the same call raised %r' % (e,), case)
        rep.max('interrupt_points_max', cut)
        rep.add('interrupt_points', cut)
    rep.sample(dict(kind='interrupted valid call', operation='and', frames=7,
                    manager='dd.bdd seed %s, reordering %s' % (seedlabel, which)))
    return rep


def ref_count(blob, v):
    st = pickle.loads(blob)
    return st.m._ref[abs(v)]


def interrupt_plan(tier='quick'):
    perms = range(0, 24, 4) if tier == 'quick' else range(24)
    return [('interrupt', which, '%s:%d' % (sl, pi), None) for which in ('off', 'dyn')
            for sl in ('used', 'warm', 'swapped', 'vars') for pi in perms]


def _dispatch_task(t):
    if t[0] == 'interrupt':
        return task_interrupt(t)
    return task_tokens(t)


def machines(tier):
    q = tier == 'quick'
    base = dict(max_handles=2, max_ext=1, ops=('and', 'xor'), with_ite=False, with_foa=False,
                with_refops=True)
    pl = [
        ('bdd3', FaultBdd(('x', 'y', 'z'), seeds=('fresh', 'used', 'warm'), light=q, **base), 3),
        ('bdd3-dyn', FaultBdd(('x', 'y', 'z'), seeds=('used', 'fresh'), reordering=2.0,
                              forced=(1, 2), light=True, **base), 2 if q else 3),
        ('autoref3', FaultAutoref(names=('x', 'y', 'z'), max_live=2, ops=('and',), rich=False,
                                  traversal=False, seeds=('fresh', 'used')), 3 if q else 4),
        ('autoref3-dyn', FaultAutoref(names=('x', 'y', 'z'), max_live=2, ops=('xor',), rich=False,
                                      traversal=False, seeds=('used',), reordering=(2.0,),
                                      forced=(1, 2)), 2 if q else 3),
    ]
    if not q:
        # deeper layers in light mode (every fault injected and judged, continuations rotated)
        pl.append(('bdd3-deep', FaultBdd(('x', 'y', 'z'), seeds=('fresh', 'used', 'warm'),
                                         light=True, **base), 4))
        pl.append(('bdd2-deep', FaultBdd(('x', 'y'), seeds=('fresh', 'used'), light=True,
                                         **dict(base, max_handles=3)), 4))
    for label, mm, d in pl:
        mm.name = 'faults/' + label
    return [(mm, d) for _, mm, d in pl]


_by_task = sweep.replay_by_task(_dispatch_task)


def replay(case):
    if 'trace' in case:
        for tier in ('thorough', 'quick'):
            for mm, _ in machines(tier):
                if mm.name == case['machine']:
                    mm.rep = None
                    return mm.replay(case)
        return None
    return _by_task(case)


def main(tier, t0):
    rep = run.Report()
    run.pmerge(_dispatch_task, [('tokens', 'off', None), ('tokens', 'dyn', None)]
               + interrupt_plan(tier), rep)
    run.close_pool()
    total = dict(states=0, transitions=0, validated=0)
    bounds = {}
    for mach, depth in machines(tier):
        r = run.Report()
        res = bfs(mach, depth, r)
        run.close_pool()
        rep.merge(r)
        for k in total:
            total[k] += res[k]
        bounds[mach.name] = dict(depth_completed=res['completed_depth'],
                                 states_per_layer=res['layers'])
    raised = rep.counts.get('faults_raised', 0)
    cov = dict(
        evaluations=rep.counts.get('faults_injected', 0) + rep.counts.get('evaluations', 0),
        distinct_nontrivial=len(rep.sets.get('fault_kinds', ())) + rep.counts.get('nontrivial', 0),
        rule=('fault = one rejected call of the menu injected into one explored state (every '
              'state of the BFS of valid histories, dd.bdd and dd.autoref, reordering off and on, '
              'with the trigger forced at positions 1, 2 inside the failing call); plus every '
              'delete / duplicate / replace edit at every token position of 10 valid formulas; '
              'plus the interruption sweep: 29 valid calls cut short by RecursionError at EVERY '
              'depth at which they can be cut (room for d = 2, 3, ... more frames until the call '
              'succeeds), 4 seed states x 6 (quick) / 24 (thorough) arrangements of the 4 names x reordering off / on. '
              'distinct_nontrivial counts DISTINCT fault kinds that really raised + distinct '
              'token edits that raised; evaluations counts injections'),
        exhaustive=not rep.caps,
        states=total['states'], transitions=total['transitions'],
        traces_validated_against_impl=total['validated'],
        faults_raised=raised,
        interrupted_calls=rep.counts.get('interrupt_points', 0),
        continuations=rep.counts.get('continuations', 0),
        fault_kinds=sorted(rep.sets.get('fault_kinds', ())),
        exception_classes=sorted(rep.sets.get('exception_classes', ())),
        bounds=bounds)
    rep.sets.pop('fault_kinds', None)
    rep.sets.pop('exception_classes', None)
    if not rep.samples:
        rep.sample(dict(fault='apply unknown node', state='after [var x, var y, apply and]'))
    return run.finish(PROP, 'fault_enumeration', tier, rep, t0, cov,
                      assumptions=['a call that returns without exception is not a rejected call '
                                   'and is not judged here; the exception class is not '
                                   'prescribed except that it is never the internal reordering '
                                   'signal'],
                      replay_fn=replay)
