"""C15 — MDD conversion and MDD operations preserve meaning."""
import itertools

from .. import env, run, sweep
from .. import oracle as O
from .. import state as S
from ..oracle import Violation
from ..ref import Universe
from ..explore import bfs, Machine

import dd.mdd as _mdd

PROP = 'C15'


# ------------------------------------------------------------------ MDD model + oracle

class IntUniverse:
    """Functions of integer variables as bit masks over the product of the domains."""

    def __init__(self, doms):
        """doms: list of (name, size) in a FIXED model order (independent of MDD levels)."""
        self.doms = list(doms)
        self.names = [n for n, _ in doms]
        self.sizes = [k for _, k in doms]
        self.N = 1
        self.stride = {}
        for n, k in doms:
            self.stride[n] = self.N
            self.N *= k
        self.full = (1 << self.N) - 1
        self.size = dict(doms)

    def value_of(self, a, name):
        return (a // self.stride[name]) % self.size[name]

    def eq(self, name, j):
        m = 0
        for a in range(self.N):
            if self.value_of(a, name) == j:
                m |= 1 << a
        return m

    def cof(self, f, name, j):
        """f with `name` fixed to value j (as a mask over all assignments)."""
        s, k = self.stride[name], self.size[name]
        r = 0
        for a in range(self.N):
            b = a - self.value_of(a, name) * s + j * s
            if (f >> b) & 1:
                r |= 1 << a
        return r

    def fmt(self, f):
        return format(f, '0%db' % self.N)


class MDen:
    def __init__(self, mdd, IU):
        self.mdd = mdd
        self.IU = IU
        self.memo = {}
        self._eq = {}

    def eq(self, name, j):
        k = (name, j)
        if k not in self._eq:
            self._eq[k] = self.IU.eq(name, j)
        return self._eq[k]

    def __call__(self, u):
        m = self.node(abs(u))
        return (self.IU.full ^ m) if u < 0 else m

    def node(self, r):
        if r in self.memo:
            return self.memo[r]
        t = self.mdd._succ.get(r)
        if t is None:
            raise Violation('MDD reference to a node that is not stored', node=r)
        if t[1] is None:
            if r != 1:
                raise Violation('MDD terminal other than node 1')
            self.memo[r] = self.IU.full
            return self.IU.full
        lvl, nodes = t[0], t[1:]
        name = self.mdd.var_at_level(lvl)
        m = 0
        for j, v in enumerate(nodes):
            m |= self.eq(name, j) & self(v)
        self.memo[r] = m
        return m


def mdd_check(mdd, IU, ext=None):
    succ, pred, ref = mdd._succ, mdd._pred, mdd._ref
    n = len(mdd.vars)
    if 1 not in succ or succ[1][0] != n or succ[1][1] is not None:
        raise Violation('MDD terminal missing or misplaced')
    levels = sorted(d['level'] for d in mdd.vars.values())
    if levels != list(range(n)):
        raise Violation('MDD levels are not 0..n-1')
    indeg = {u: 0 for u in succ}
    seen = {}
    for u, t in succ.items():
        if u == 1:
            continue
        lvl, nodes = t[0], t[1:]
        var = mdd.var_at_level(lvl)
        if len(nodes) != mdd.vars[var]['len']:
            raise Violation('MDD node with the wrong number of successors', node=u)
        if nodes[0] <= 0:
            raise Violation('MDD node whose first edge is complemented', node=u)
        if len(set(nodes)) == 1:
            raise Violation('MDD node with all successors equal', node=u)
        for v in nodes:
            if abs(v) not in succ:
                raise Violation('MDD child not stored', node=u)
            if not succ[abs(v)][0] > lvl:
                raise Violation('MDD levels do not increase along an edge', node=u)
            indeg[abs(v)] += 1
        if t in seen:
            raise Violation('two MDD nodes with the same level and successors')
        seen[t] = u
        if pred.get(t) != u:
            raise Violation('MDD unique table is not the inverse of the node table', node=u)
    if len(pred) != len(succ) - 1:
        raise Violation('MDD unique table size differs from the node table')
    if set(ref) != set(succ):
        raise Violation('MDD counted nodes differ from stored nodes')
    for u in succ:
        want = indeg[u] + (ext.get(u, 0) if ext else 0)
        if ext is not None and ref[u] != want:
            raise Violation('MDD reference count differs from in-degree + external', node=u,
                            stored=ref[u], expected=want)
        if ref[u] < indeg[u]:
            raise Violation('MDD reference count below in-degree', node=u)
    # the computed table: only stored nodes, only correct entries
    tab = getattr(mdd, '_ite_table', None)
    entries = []
    if isinstance(tab, dict):
        for key, w in tab.items():
            if not (isinstance(key, tuple) and len(key) == 3 and isinstance(w, int) and
                    all(isinstance(x, int) for x in key)):
                entries = None
                break
            for x in key + (w,):
                if abs(x) not in succ:
                    raise Violation('the MDD computed table mentions a node that is not stored',
                                    entry=[list(key), w], node=abs(x))
            entries.append((key, w))
    if IU is not None:
        d = MDen(mdd, IU)
        for (g_, u_, v_), w_ in entries or ():
            mg, mu, mv, mw = d(g_), d(u_), d(v_), d(w_)
            if mw != (mg & mu) | ((IU.full ^ mg) & mv):
                raise Violation('the MDD computed table holds an entry whose value is not '
                                'ite(g, u, v)', entry=[[g_, u_, v_], w_])
        fs = {}
        for u in succ:
            m = d(u)
            if m in fs or (IU.full ^ m) in fs:
                raise Violation('two MDD nodes denote the same function up to complement',
                                nodes=[fs.get(m, fs.get(IU.full ^ m)), u])
            fs[m] = u


class MBuilder:
    def __init__(self, mdd, IU):
        self.mdd, self.IU, self.memo = mdd, IU, {}

    def reset(self):
        self.memo = {}

    def __call__(self, f):
        IU = self.IU
        if f == IU.full:
            return 1
        if f == 0:
            return -1
        if f in self.memo:
            return self.memo[f]
        mdd = self.mdd
        for lvl in range(len(mdd.vars)):
            name = mdd.var_at_level(lvl)
            cofs = [IU.cof(f, name, j) for j in range(IU.size[name])]
            if len(set(cofs)) > 1:
                r = mdd.find_or_add(lvl, *[self(c) for c in cofs])
                self.memo[f] = r
                return r
        raise AssertionError('no variable')


# ------------------------------------------------------------------ (a) conversion

def groupings(max_bits):
    out = []
    for k in (1, 2, 3):
        for sizes in itertools.product((1, 2, 3), repeat=k):
            if sum(sizes) <= max_bits:
                out.append(sizes)
    return out


def task_convert(t):
    _, sizes, bit_orders, int_orders, fstride, pairstride, focus = t
    rep = run.Report()
    rec = sweep.Rec(rep)
    vnames = ['a', 'b', 'c'][:len(sizes)]
    bits = {v: ['%s_%d' % (v, i) for i in range(k)] for v, k in zip(vnames, sizes)}
    allbits = [b for v in vnames for b in bits[v]]
    nb = len(allbits)
    U = Universe(allbits)
    IU = IntUniverse([(v, 2 ** len(bits[v])) for v in vnames])
    # encoding: integer assignment index -> bit assignment index, for a given SIGNIFICANCE
    # order of the bits of each integer (`bitnames`: least significant first)
    def make_enc(sig):
        out = []
        for a in range(IU.N):
            idx = 0
            for v in vnames:
                val = IU.value_of(a, v)
                for i, b in enumerate(sig[v]):
                    if (val >> i) & 1:
                        idx |= 1 << U.idx[b]
            out.append(idx)
        return out
    sigs = [dict(bits), {v: list(reversed(bits[v])) for v in vnames}]
    if any(len(bits[v]) > 2 for v in vnames):
        sigs.append({v: bits[v][1:] + bits[v][:1] for v in vnames})
    encs = [make_enc(sg) for sg in sigs]
    if nb <= 3:
        fs = list(range(0, 1 << U.N, fstride))
    else:
        fs = _probe(U, fstride)
    held_sets = [(f,) for f in fs]
    if pairstride:
        held_sets += [(f, g) for f in fs[::pairstride] for g in fs[1::pairstride]]
    bperms = list(itertools.permutations(allbits))
    if bit_orders == 'rot':
        bperms = [tuple(allbits[r:] + allbits[:r]) for r in range(nb)] + [tuple(reversed(allbits))]
    if nb >= 5 and bit_orders == 'all':
        # every initial bit order, with a small family of held functions that depend on the
        # middle bits of the integer variables
        X = {b_: U.var(b_) for b_ in allbits}
        mids = [bits[v][len(bits[v]) // 2] for v in vnames]
        lows = [bits[v][0] for v in vnames]
        highs = [bits[v][-1] for v in vnames]
        fam = [X[mids[0]] ^ X[highs[-1]], X[mids[0]] & X[mids[-1]] | X[lows[0]],
               (X[lows[0]] ^ X[mids[-1]]) & X[highs[0]]]
        acc = 0
        for b_ in allbits:
            acc ^= X[b_]
        fam.append(acc)
        held_sets = [(f,) for f in fam] + [(fam[0], fam[1])]
    iperms = list(itertools.permutations(vnames)) if int_orders == 'all' else [tuple(vnames)]
    for bpi, bp in enumerate(bperms):
        border = {b: i for i, b in enumerate(bp)}
        # the significance order of the bits rotates with the bit order: the same integer
        # variable is converted with different `bitnames` lists within one process
        sig, enc = sigs[bpi % len(sigs)], encs[bpi % len(sigs)]
        for ip in iperms:
            dvars = {v: dict(level=ip.index(v), len=2 ** len(bits[v]), bitnames=list(sig[v]))
                     for v in vnames}
            for hm in held_sets:
                if focus is not None and list(hm) != list(focus):
                    continue
                for neg in (False, True):
                    case = dict(task=t[:-1] + (list(hm),), sizes=list(sizes), bit_order=list(bp),
                                bitnames={v: list(sig[v]) for v in vnames},
                                int_order=list(ip), held=[U.fmt(f) for f in hm], negated=neg)
                    try:
                        bdd = S.new_bdd(border)
                        b = sweep.Builder(bdd, U)
                        held = []
                        ext = {}
                        for f in hm:
                            r = b.verified(f)
                            if neg:
                                r = -r
                            bdd.incref(r)
                            held.append(r)
                            ext[abs(r)] = ext.get(abs(r), 0) + 1
                        b(U.var(allbits[0]) ^ U.var(allbits[-1]))   # garbage
                        mdd, umap = _mdd.bdd_to_mdd(bdd, {v: dict(d) for v, d in dvars.items()})
                        rep.add('evaluations')
                        den = O.Den(bdd, U)
                        O.check(bdd, ext, U, den)
                        md = MDen(mdd, IU)
                        for f, r in zip(hm, held):
                            want = (U.full ^ f) if neg else f
                            if den(r) != want:
                                raise Violation('a BDD function changed during the conversion')
                            if abs(r) == 1:
                                mr = umap.get(1)
                            else:
                                mr = umap.get(abs(r))
                            if mr is None:
                                raise Violation('a referenced BDD node has no MDD counterpart')
                            if r < 0:
                                mr = -mr
                            got = md(mr)
                            exp = 0
                            for a in range(IU.N):
                                if (want >> enc[a]) & 1:
                                    exp |= 1 << a
                            if got != exp:
                                raise Violation('the MDD differs from the BDD on an integer '
                                                'assignment', got=IU.fmt(got), want=IU.fmt(exp))
                        mdd_check(mdd, IU, None)
                        for v in vnames:
                            if mdd.level_of_var(v) != dvars[v]['level']:
                                raise Violation('the MDD does not have the requested variable order')
                        if any(f not in (0, U.full) for f in hm):
                            rep.add('nontrivial')
                    except Violation as e:
                        rec('convert:' + e.what, e.what, case, **e.detail)
                    except Exception as e:  # noqa
                        rec('convert-exception:' + type(e).__name__, 'raised %r' % (e,), case)
    if focus is None:
        rep.sample(dict(kind='bdd_to_mdd', sizes=list(sizes), bit_order=list(bperms[-1]),
                        int_order=list(iperms[-1]), held=[U.fmt(fs[len(fs) // 2])]))
    return rep


def _probe(U, stride):
    X = [U.var(n) for n in U.names]
    F = U.full
    ps = list(X)
    for i, j in itertools.combinations(range(len(X)), 2):
        ps += [X[i] & X[j], X[i] ^ X[j], X[i] | (F ^ X[j])]
    acc_and, acc_xor = F, 0
    for x in X:
        acc_and &= x
        acc_xor ^= x
    ps += [acc_and, acc_xor, (X[0] & X[1]) | (X[-1] & X[-2]), (X[0] ^ X[-1]) & X[1]]
    out = []
    for p in ps:
        if p not in out:
            out.append(p)
    return out[::max(1, stride // 8)] if stride > 8 else out


# ------------------------------------------------------------------ (b) MDD algebra

BINARY = {
    'and': ['and', '/\\', '&', '&&'],
    'or': ['or', '\\/', '|', '||'],
    'xor': ['#', 'xor', '^'],
    'implies': ['=>', '->', 'implies'],
    'equiv': ['<=>', '<->', 'equiv'],
    'diff': ['diff', '-'],
}


def _model(F):
    return {
        'and': lambda a, b: a & b,
        'or': lambda a, b: a | b,
        'xor': lambda a, b: a ^ b,
        'implies': lambda a, b: (F ^ a) | b,
        'equiv': lambda a, b: F ^ (a ^ b),
        'diff': lambda a, b: a & (F ^ b),
    }


def task_algebra(t):
    _, doms, perm, si, ns, do_ite, focus = t
    rep = run.Report()
    rec = sweep.Rec(rep)
    names = ['p', 'q', 'r'][:len(doms)]
    IU = IntUniverse(list(zip(names, doms)))
    dvars = {n: dict(level=perm[i], len=doms[i]) for i, n in enumerate(names)}
    mdd = _mdd.MDD(dvars)
    b = MBuilder(mdd, IU)
    refs = {}
    fs = list(range(1 << IU.N))
    md = MDen(mdd, IU)
    try:
        for f in fs:
            r = b(f)
            mdd.incref(r)
            refs[f] = r
            if md(r) != f:
                raise Violation('MDD find_or_add built another function', f=IU.fmt(f))
    except Violation as e:
        rec('build:' + e.what, e.what, dict(task=t))
        return rep
    inv = {}
    for f, r in refs.items():
        inv[r] = f
        inv[-r] = IU.full ^ f
    if len(inv) != len(refs):
        rec('canonical', 'equal MDD functions do not have equal references', dict(task=t))
    F = IU.full
    model = _model(F)
    table = [(sym, model[g]) for g, syms in BINARY.items() for sym in syms]
    mine = sweep.shard(fs, ns)[si]
    cnt = 0
    for fu in mine:
        if focus is not None and fu != focus:
            continue
        u = refs[fu]
        for sym in ('not', '~', '!'):
            cnt += 1
            if inv.get(mdd.apply(sym, u)) != F ^ fu:
                rec('mdd-apply:' + sym, 'MDD negation is wrong', dict(task=t[:-1] + (fu,)))
        for fv in fs:
            v = refs[fv]
            for sym, fn in table:
                try:
                    r = mdd.apply(sym, u, v)
                    got = inv.get(r)
                    if got is None:
                        got = MDen(mdd, IU)(r)
                    ok = got == fn(fu, fv)
                except Exception:  # noqa
                    ok = False
                if not ok:
                    rec('mdd-apply:' + sym, 'MDD apply denotes the wrong function',
                        dict(task=t[:-1] + (fu,), op=sym, u=IU.fmt(fu), v=IU.fmt(fv)))
            cnt += len(table)
            if do_ite:
                for fw in fs[::do_ite]:
                    try:
                        r = mdd.ite(u, v, refs[fw])
                        got = inv.get(r)
                        if got is None:
                            got = MDen(mdd, IU)(r)
                        ok = got == (fu & fv) | ((F ^ fu) & fw)
                        r2 = mdd.apply('ite', u, v, refs[fw])
                        ok = ok and r2 == r
                    except Exception:  # noqa
                        ok = False
                    cnt += 1
                    if not ok:
                        rec('mdd-ite', 'MDD ite denotes the wrong function',
                            dict(task=t[:-1] + (fu,), u=IU.fmt(fu), v=IU.fmt(fv), w=IU.fmt(fw)))
    rep.add('evaluations', cnt)
    rep.add('nontrivial', cnt)
    try:
        ext = {}
        for f, r in refs.items():
            ext[abs(r)] = ext.get(abs(r), 0) + 1
        mdd_check(mdd, IU, ext)
        # collection with everything held frees nothing; release half, collect, check reachability
        n0 = len(mdd)
        mdd.collect_garbage()
        if len(mdd) != n0:
            raise Violation('MDD collection freed a referenced node')
        rel = [f for f in fs if min(f, F ^ f) % 2 == 1]
        for f in rel:
            mdd.decref(refs[f])
            ext[abs(refs[f])] -= 1
        mdd.collect_garbage()
        keep = _mreach(mdd, [refs[f] for f in fs if f not in set(rel)])
        if set(mdd._succ) != keep:
            raise Violation('after MDD collect_garbage the stored nodes are not exactly the '
                            'reachable ones')
        mdd_check(mdd, IU, {u: c for u, c in ext.items() if c})
        b.reset()
        md2 = MDen(mdd, IU)
        for f in rel[:64]:
            if md2(b(f)) != f:
                raise Violation('after an MDD collection a rebuilt function is wrong')
        r = mdd.apply('and', refs[fs[3]] if fs[3] not in rel else refs[fs[4]], 1)
    except Violation as e:
        rec('mdd-after:' + e.what, e.what, dict(task=t), **e.detail)
    if si == 0 and focus is None:
        rep.sample(dict(kind='MDD apply/ite', domains=list(doms), levels=list(perm),
                        u=IU.fmt(fs[len(fs) // 3]), v=IU.fmt(fs[len(fs) // 5])))
    return rep


def _mreach(mdd, roots):
    seen = {1}
    st = [abs(r) for r in roots]
    while st:
        u = st.pop()
        if u in seen:
            continue
        seen.add(u)
        st.extend(abs(v) for v in mdd._succ[u][1:])
    return seen


# ------------------------------------------------------------------ (c) BFS on the MDD manager

class MSt:
    def __init__(self, m, h):
        self.m, self.h = m, h

    def __getstate__(self):
        d = dict(self.m.__dict__)
        return (d, self.h)

    def __setstate__(self, s):
        d, self.h = s
        self.m = _mdd.MDD.__new__(_mdd.MDD)
        self.m.__dict__.update(d)


class MddMachine(Machine):
    name = 'mdd'

    def __init__(self, doms=(3, 2), max_handles=3, max_ext=2, focus=False,
                 seeds=('fresh', 'rev', 'two')):
        self.focus = focus      # cache/number re-use alphabet only
        self._seeds = tuple(seeds)
        self.doms = doms
        self.names = ['p', 'q', 'r'][:len(doms)]
        self.IU = IntUniverse(list(zip(self.names, doms)))
        self.max_handles = max_handles
        self.max_ext = max_ext

    def seed_labels(self):
        return list(self._seeds)

    def seed(self, label):
        n = len(self.doms)
        lv = list(range(n)) if label != 'rev' else list(reversed(range(n)))
        dvars = {v: dict(level=lv[i], len=self.doms[i]) for i, v in enumerate(self.names)}
        st = MSt(_mdd.MDD(dvars), [])
        if label in ('two', 'three'):
            self.apply(st, ('lit', self.names[0], 0))
            self.apply(st, ('lit', self.names[1], 1))
        if label == 'three':
            self.apply(st, ('and', 0, 1, 'hold'))
        return st

    def actions(self, st):
        h = st.h
        acts = []
        room = len(h) < self.max_handles
        idx = range(len(h))
        if room:
            for v in self.names:
                for j in range(self.IU.size[v]):
                    acts.append(('lit', v, j))
            for i in idx:
                for j in idx:
                    if self.focus and i > j:
                        continue
                    acts.append(('and', i, j, 'hold'))
                    if not self.focus:
                        acts.append(('xor', i, j, 'hold'))
            for i in idx:
                acts.append(('not', i))
            if self.focus:
                # an operation whose OPERAND is an unreferenced temporary
                for i in idx:
                    for j in idx:
                        for k in idx:
                            if i < j:
                                acts.append(('nest', i, j, k))
        for i in idx:
            for j in idx:
                if self.focus and i > j:
                    continue
                acts.append(('or', i, j, 'drop'))
                if not self.focus:
                    for k in idx:
                        if len({i, j, k}) == min(3, len(h)):
                            acts.append(('ite', i, j, k))
            if h[i][1] < self.max_ext and not self.focus:
                acts.append(('incref', i))
            acts.append(('decref', i))
        acts.append(('collect',))
        if not self.focus:
            acts.append(('collect_roots',))
        return acts

    def _hold(self, st, r, mask):
        st.m.incref(r)
        for e in st.h:
            if e[0] == r:
                e[1] += 1
                return
        st.h.append([r, 1, mask])

    def apply(self, st, a, check=True):
        m, h, IU = st.m, st.h, self.IU
        F = IU.full
        md = MDen(m, IU) if check else None
        k = a[0]
        if k == 'lit':
            _, v, j = a
            lvl = m.level_of_var(v)
            nodes = [1 if i == j else -1 for i in range(IU.size[v])]
            r = m.find_or_add(lvl, *nodes)
            want = IU.eq(v, j)
            if check and md(r) != want:
                raise Violation('MDD find_or_add denotes the wrong function')
            self._hold(st, r, want)
        elif k in ('and', 'xor', 'or'):
            _, i, j, mode = a
            r = m.apply(k, h[i][0], h[j][0])
            want = {'and': h[i][2] & h[j][2], 'xor': h[i][2] ^ h[j][2],
                    'or': h[i][2] | h[j][2]}[k]
            if check and md(r) != want:
                raise Violation('MDD apply denotes the wrong function', op=k)
            if mode == 'hold':
                self._hold(st, r, want)
        elif k == 'not':
            r = m.apply('not', h[a[1]][0])
            self._hold(st, r, F ^ h[a[1]][2])
        elif k == 'nest':
            _, i, j, kk = a
            t = m.apply('or', h[i][0], h[j][0])
            r = m.apply('and', t, h[kk][0])
            want = (h[i][2] | h[j][2]) & h[kk][2]
            if check and md(r) != want:
                raise Violation('MDD apply on a temporary operand denotes the wrong function')
            self._hold(st, r, want)
        elif k == 'ite':
            _, i, j, kk = a
            r = m.ite(h[i][0], h[j][0], h[kk][0])
            want = (h[i][2] & h[j][2]) | ((F ^ h[i][2]) & h[kk][2])
            if check and md(r) != want:
                raise Violation('MDD ite denotes the wrong function')
        elif k == 'incref':
            m.incref(h[a[1]][0])
            h[a[1]][1] += 1
        elif k == 'decref':
            e = h[a[1]]
            m.decref(e[0])
            e[1] -= 1
            if e[1] == 0:
                del h[a[1]]
        elif k == 'collect':
            m.collect_garbage()
            if check:
                keep = _mreach(m, [e[0] for e in h])
                if set(m._succ) != keep:
                    raise Violation('after MDD collect_garbage the stored nodes are not exactly '
                                    'the reachable ones', extra=sorted(set(m._succ) - keep),
                                    missing=sorted(keep - set(m._succ)))
        elif k == 'collect_roots':
            z = sorted(u for u, c in m._ref.items() if c == 0 and u != 1)
            if z:
                m.collect_garbage(roots=[z[0]])
        else:
            raise KeyError(a)

    def invariant(self, st):
        ext = {}
        for r, c, _ in st.h:
            ext[abs(r)] = ext.get(abs(r), 0) + c
        mdd_check(st.m, self.IU, ext)
        md = MDen(st.m, self.IU)
        for r, c, mask in st.h:
            if md(r) != mask:
                raise Violation('a held MDD reference changed denotation')
            if hasattr(st.m, 'ref') and (st.m.ref(r) != st.m._ref[abs(r)] or
                                         st.m.ref(-r) != st.m._ref[abs(r)]):
                raise Violation('MDD.ref(u) does not report the reference count of the node')
            if r not in st.m or -r not in st.m:
                raise Violation('a held MDD reference is reported as not in the manager')

    def key(self, st):
        d = {k: v for k, v in st.m.__dict__.items() if k not in ('_parser',)}
        return (S._canon(d), S._canon(sorted(st.h)))


TASKS = dict(conv=task_convert, alg=task_algebra)


def dispatch(t):
    return TASKS[t[0]](t)


def plan(tier):
    ts = []
    if tier == 'quick':
        for sizes in groupings(5):
            nb = sum(sizes)
            if nb <= 3:
                ts.append(('conv', sizes, 'all', 'all', 1 if nb <= 2 else 3, 0, None))
            elif nb == 4:
                ts.append(('conv', sizes, 'all', 'all', 16, 0, None))
            else:
                ts.append(('conv', sizes, 'rot', 'all', 32, 0, None))
                ts.append(('conv', sizes, 'all', 'all', 32, 0, None))
        ts.append(('conv', (3, 3), 'all', 'all', 32, 0, None))
        ts.append(('conv', (2, 1), 'all', 'all', 1, 7, None))
        for perm in itertools.permutations(range(2)):
            for si in range(2):
                ts.append(('alg', (3, 2), perm, si, 2, 1, None))
        ts.append(('alg', (2, 3, 2), (2, 0, 1), 0, 64, 0, None))
    else:
        for sizes in groupings(6):
            nb = sum(sizes)
            if nb <= 3:
                ts.append(('conv', sizes, 'all', 'all', 1, 5 if nb == 3 else 1, None))
            elif nb == 4:
                ts.append(('conv', sizes, 'all', 'all', 8, 0, None))
            else:
                ts.append(('conv', sizes, 'rot', 'all', 8, 0, None))
                ts.append(('conv', sizes, 'all', 'all', 8, 0, None))
        for perm in itertools.permutations(range(2)):
            for si in range(4):
                ts.append(('alg', (3, 2), perm, si, 4, 1, None))
        for perm in itertools.permutations(range(3)):
            for si in range(16):
                ts.append(('alg', (2, 3, 2), perm, si, 16, 0, None))
    return ts


_by_task = sweep.replay_by_task(dispatch)


def replay(case):
    if 'trace' in case:
        doms = tuple(case.get('doms', (3, 2)))
        focus = 'cache' in case.get('machine', '')
        return MddMachine(doms, focus=focus, seeds=('fresh', 'rev', 'two', 'three')).replay(case)
    return _by_task(case)


def main(tier, t0):
    rep = run.Report()
    tasks = plan(tier)
    run.pmerge(dispatch, tasks, rep)
    run.close_pool()
    total = dict(states=0, transitions=0, validated=0)
    bounds = {}
    q = tier == 'quick'
    for doms, depth, focus, seeds in (
            ((3, 2), 4 if q else 5, False, ('fresh', 'rev', 'two')),
            ((2, 2, 3), 3 if q else 4, False, ('fresh', 'rev', 'two')),
            ((3, 2), 5 if q else 6, True, ('two', 'three'))):
        mach = MddMachine(doms, focus=focus, seeds=seeds)
        mach.name = 'mdd%s/%s' % ('-cache' if focus else '', 'x'.join(map(str, doms)))
        r = run.Report()
        res = bfs(mach, depth, r)
        run.close_pool()
        for v in r.violations:
            v['case']['doms'] = list(doms)
        rep.merge(r)
        for k in total:
            total[k] += res[k]
        bounds[mach.name] = dict(depth_completed=res['completed_depth'],
                                 states_per_layer=res['layers'])
    cov = dict(
        evaluations=rep.counts.get('evaluations', 0) + total['transitions'],
        distinct_nontrivial=rep.counts.get('nontrivial', 0),
        rule=('(a) bdd_to_mdd: every grouping of <= 5 (quick) / 6 (thorough) bits into 1-3 integer '
              'variables of 1-3 bits, every integer order, every initial bit order for <= 4 bits '
              '(rotations + reversal beyond), held sets of 1-2 functions (all functions for <= 3 '
              'bits on a stated stride, probe family beyond), regular and complemented; (b) MDD '
              'managers with domains (3,2) [all 64 functions: every pair x every alias, every '
              'ite triple] and (2,3,2) [4096 functions: pairs, slices quick]; (c) BFS over '
              'find_or_add / apply / ite / incref / decref / collections. non-trivial = non-'
              'constant operand; distinct by construction'),
        exhaustive=True,
        states=total['states'], transitions=total['transitions'],
        traces_validated_against_impl=total['validated'],
        history_bounds=bounds, tasks=len(tasks))
    return run.finish(PROP, 'exploration', tier, rep, t0, cov,
                      assumptions=['integer functions as masks over the product of the domains; '
                                   'encoding: first listed bit is least significant'],
                      replay_fn=replay)
