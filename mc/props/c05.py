"""C05 — add_expr gives each formula its documented meaning; to_expr round-trips.

Bounded-exhaustive program enumeration: formulas generated from the documented grammar
(every ordered pair of binary spellings with and without parentheses, negations,
chains, binders at every position, ite, constants, @n references of both signs,
comments, whitespace variations) are parsed by the real add_expr (dd.bdd and
dd.autoref) and compared with an independent precedence-climbing evaluator (mc/fml.py).
"""
import itertools

from .. import env, run, sweep
from .. import oracle as O
from .. import state as S
from ..oracle import Violation
from ..ref import Universe, names_for
from ..fml import Evaluator, FormulaError

PROP = 'C05'

SPELL = {
    'and': ['/\\', '&', '&&'],
    'or': ['\\/', '|', '||'],
    'xor': ['#', '^'],
    'implies': ['=>', '->'],
    'equiv': ['<=>', '<->'],
    'minus': ['-'],
}
ALL_BIN = [s for v in SPELL.values() for s in v]
NOTS = ['~', '!']


def gen_pairs(names):
    """(a) x OP1 y OP2 z for every ordered pair of spellings, three parenthesisations; (b) with
    negated operands and redundant parentheses."""
    x, y, z = names[:3]
    for o1 in ALL_BIN:
        for o2 in ALL_BIN:
            yield f'{x} {o1} {y} {o2} {z}'
            yield f'({x} {o1} {y}) {o2} {z}'
            yield f'{x} {o1} ({y} {o2} {z})'
            yield f'{z} {o1} {x} {o2} {y}'
            yield f'~ {x} {o1} ! {y} {o2} ~ {z}'
            yield f'(({x})) {o1} (~ ({y})) {o2} ({z})'
            yield f'~ ({x} {o1} {y}) {o2} {z}'
            yield f'{x}{o1}{y}{o2}{z}' if _tight_ok(o1, o2) else f'{x} {o1} {y} {o2} {z}'


def _tight_ok(o1, o2):
    # without spaces every generated formula still tokenises the same way
    return True


def gen_same(names):
    x, y, z, w = names[:4]
    for o in ALL_BIN:
        yield f'{x} {o} {y} {o} {z}'
        yield f'{x} {o} {y} {o} {z} {o} {w}'
        yield f'{w} {o} {z} {o} {y} {o} {x}'


def gen_chains(names, full):
    """(c) chains of three operators, one spelling per level, operand permutations."""
    one = [v[0] for v in SPELL.values()]
    perms = list(itertools.permutations(names[:4])) if full else [
        tuple(names[:4]), tuple(reversed(names[:4]))]
    for o1, o2, o3 in itertools.product(one, repeat=3):
        for a, b, c, d in perms:
            yield f'{a} {o1} {b} {o2} {c} {o3} {d}'


def gen_binders(names):
    """(d) binders at the left end, in the middle after each binary spelling, under ~, nested."""
    x, y, z, w = names[:4]
    bodies = [f'{x} /\\ {y}', f'{x} => {y} \\/ {z}', f'{x} <=> {y} # {z}', f'~ {x} | {w}']
    binders = [f'\\E {x}', f'\\A {x}', f'\\E {x}, {y}', f'\\A {y}, {z}', f'\\E {w}']
    subs = [f'\\S {y} / {x}', f'\\S {x} / {y}, {y} / {x}', f'\\S {w} / {z}, {z} / {x}',
            f'\\S {x} / {x}',
            # chains and exchanges in BOTH written orders (the substitution is simultaneous:
            # the order of the pairs must not matter), also with the middle variable absent
            # from the body
            f'\\S {z} / {x}, {w} / {z}', f'\\S {y} / {x}, {z} / {y}', f'\\S {z} / {y}, {y} / {x}',
            f'\\S {y} / {x}, {x} / {y}', f'\\S {w} / {y}, {y} / {x}, {x} / {w}']
    for b in binders + subs:
        for body in bodies:
            yield f'{b}: {body}'
            yield f'~ {b}: {body}'
            yield f'({b}: {body}) /\\ {z}'
            for o in ALL_BIN:
                yield f'{z} {o} {b}: {body}'
                yield f'{z} {o} {b}: {body} {o} {w}'
                yield f'{w} {o} ~ {b}: {body}'
    for b1 in binders:
        for b2 in binders + subs[:2]:
            yield f'{b1}: {b2}: {x} # {y} # {z}'
            yield f'{b1}: {z} \\/ {b2}: {x} /\\ {y} => {w}'
            yield f'{b1}: ({b2}: {x} <-> {y}) - {z}'


def gen_ite_const(names):
    """(e) ite with compound arguments; (f) constants in the documented spellings."""
    x, y, z, w = names[:4]
    args = [x, f'~ {y}', f'{x} /\\ {y}', f'{y} => {z}', f'\\E {x}: {x} # {w}', f'({z} | {w})',
            'TRUE', 'FALSE']
    for a, b, c in itertools.product(args, repeat=3):
        yield f'ite({a}, {b}, {c})'
    for a in args[:6]:
        yield f'ite({a}, {x}, {y}) /\\ {z}'
        yield f'~ ite({x}, {a}, {z}) => {w}'
        yield f'ite(ite({x}, {y}, {z}), {a}, ite({w}, {x}, {a}))'
    for t in ('TRUE', 'FALSE'):
        for o in ALL_BIN:
            yield f'{t} {o} {x}'
            yield f'{x} {o} {t}'
            yield f'~ {t} {o} {y} {o} {t}'
        yield t
        yield f'~ {t}'
        yield f'\\E {x}: {t}'
        yield f'ite({t}, {x}, {y})'


def gen_lowercase(names):
    x = names[0]
    for t in ('true', 'false'):
        yield t
        yield f'{x} /\\ {t}'
        yield f'~ {t} \\/ {x}'
        yield f'ite({x}, {t}, ~ {t})'


def gen_dotted(names):
    return []


def gen_comments_ws(names):
    """(h) both comment forms at every token boundary; (i) whitespace variations."""
    x, y, z, w = names[:4]
    base = [
        [x, '/\\', y, '\\/', '~', z],
        ['\\E', x, ',', y, ':', '(', x, '=>', z, ')', '<->', w],
        ['ite', '(', x, ',', y, '-', z, ',', w, ')'],
        ['\\S', y, '/', x, ':', x, '&&', '!', z],
        [x, '->', y, '<->', z, '#', w],
    ]
    for toks in base:
        for pos in range(len(toks) + 1):
            for c in ('(* a comment *)', '(* multi\nline (x /\\ *)', '\\* trailing y \\/ \n'):
                yield ' '.join(toks[:pos] + [c] + toks[pos:])
        yield ' '.join(toks) + ' \\* comment at the very end'
        yield '\t'.join(toks)
        yield '\n'.join(toks)
        yield '  \n\t '.join(toks)
    # no whitespace at all between tokens that stay distinct
    for o in ALL_BIN:
        yield f'{x}{o}{y}'
        yield f'({x}){o}({y})'
        yield f'~{x}{o}!{y}'
    yield f'{x}->{y}-{z}'
    yield f'{x}-{y}->{z}'
    yield f'{x}<->{y}<=>{z}'
    yield f"{x}' /\\ {y}" if False else f'{x} /\\ {y}'


def gen_nodes(names, nodes):
    """(g) @n and @-n for every node of the manager, combined with operators."""
    x, y = names[:2]
    for n in nodes:
        for s in (n, -n):
            yield f'@{s}'
            yield f'~ @{s}'
            yield f'@{s} /\\ {x}'
            yield f'{y} => @{s}'
            yield f'\\E {x}: @{s}'
            yield f'ite(@{s}, {x}, @{-s})'
            yield f'@ {s} # {y}'


def families(names, tier):
    full = tier == 'thorough'
    return [
        ('pairs', list(gen_pairs(names))),
        ('same', list(gen_same(names))),
        ('chains', list(gen_chains(names, full))),
        ('binders', list(gen_binders(names))),
        ('ite+constants', list(gen_ite_const(names))),
        ('lowercase-constants', list(gen_lowercase(names))),
        ('comments+whitespace', list(gen_comments_ws(names))),
    ]


def task_formulas(t):
    _, fam, oi, which, si, ns, tier, focus = t
    rep = run.Report()
    rec = sweep.Rec(rep)
    names = names_for(4, env.SEED)
    U = Universe(names)
    order = sweep.orders(names)[oi]
    which, _, gc_mode = which.partition(':')
    if which == 'autoref':
        bdd = S.new_autoref(order)
    else:
        bdd = S.new_bdd(order)
    raw = O.raw(bdd)
    # pre-populate: some held functions, some garbage, warm cache
    b = sweep.Builder(raw, U)
    held = []
    for f in (U.var(names[0]) & U.var(names[2]), U.var(names[1]) ^ U.var(names[3]),
              (U.var(names[0]) | U.var(names[1])) & U.neg(U.var(names[3]))):
        r = b.verified(f)
        raw.incref(r)
        held.append((r, f))
    den = O.Den(raw, U)
    if fam == 'nodes':
        forms = list(gen_nodes(names, sorted(
            {abs(r) for r, _ in held} if gc_mode else raw._succ)))
    else:
        forms = dict(families(names, tier))[fam]
    ev = Evaluator(U, node_mask=lambda n: O.Den(raw, U)(n) if abs(n) in raw._succ else _bad(n))
    mine = sweep.shard(forms, ns)[si]
    _decoy = sweep.Decoy(names)
    for k, s in enumerate(mine):
        _bad = _decoy.poke()
        if _bad:
            rec('second-manager:' + _bad, _bad, dict(task=t))
        if focus is not None and s != focus:
            continue
        if gc_mode and k % 3 == 2 and focus is None:
            # a history: unreferenced results (and the variable nodes nobody holds) are
            # collected between formulas, their numbers are re-used by the next ones
            raw.collect_garbage()
        case = dict(task=t[:-1] + (s,), formula=s, order=sweep.order_str(order), manager=which)
        try:
            want = ev(s)
        except FormulaError as e:
            raise AssertionError('harness: generated an ill-formed formula %r: %s' % (s, e))
        try:
            r = bdd.add_expr(s)
            got = O.Den(raw, U)(r)
            rep.add('evaluations')
            rep.add('nontrivial')
            if got != want:
                rec('%s:wrong' % fam, 'add_expr gives the formula another meaning', case,
                    got=U.fmt(got), want=U.fmt(want))
            del r
        except Violation as e:
            rec('%s:broken' % fam, e.what, case)
        except Exception as e:  # noqa
            rec('%s:exception:%s' % (fam, type(e).__name__),
                'add_expr rejected a formula of the documented grammar: %s' % (str(e)[:100],),
                case)
    env.settle()
    try:
        ext = {}
        for r, f in held:
            ext[abs(r)] = ext.get(abs(r), 0) + 1
        O.check(raw, ext, U)
        d2 = O.Den(raw, U)
        for r, f in held:
            if d2(r) != f:
                raise Violation('a held function changed while parsing')
    except Violation as e:
        rec('%s:after:%s' % (fam, e.what), e.what, dict(task=t), **e.detail)
    if si == 0 and focus is None and mine:
        rep.sample(dict(family=fam, formula=mine[len(mine) // 2], order=sweep.order_str(order),
                        manager=which))
    return rep


def _bad(n):
    raise FormulaError('unknown node %d' % n)


SPECIAL_NAMES = ("x'", "y''", '_a1', 'a.b', 'c.d.e', 'item', 'TRUEx', 'Falsey', 'A', 'E', 'S',
                 '_', 'iteite', 'trueish', 'tRUE', 'FALSe', 'Ite', 'ITE', 'true_', 'False1')


def task_names(t):
    """Identifiers of the documented form: letters, digits, underscore, prime, dot."""
    _, which, focus = t
    rep = run.Report()
    rec = sweep.Rec(rep)
    names = SPECIAL_NAMES
    order = {n: i for i, n in enumerate(names)}
    bdd = S.new_autoref(order) if which == 'autoref' else S.new_bdd(order)
    raw = O.raw(bdd)
    forms = []
    pairs = list(itertools.permutations(names, 2))
    for a, b_ in pairs[::3] + pairs[1::7]:
        for s_ in (f'{a} /\\ {b_}', f'~ {a} => {b_}', f'\\E {a}: {a} # {b_}',
                   f'\\S {b_} / {a}: {a}', f'ite({a}, {b_}, ~{a})', f'{a}<->{b_}'):
            forms.append((s_, (a, b_)))
    for s, ab in forms:
        if focus is not None and s != focus:
            continue
        U = Universe(ab)        # the formula mentions only these two names
        ev = Evaluator(U)
        case = dict(task=t[:-1] + (s,), formula=s, manager=which)
        try:
            want = ev(s)
            r = bdd.add_expr(s)
            rep.add('evaluations')
            rep.add('nontrivial')
            if O.Den(raw, U)(r) != want:
                rec('names:wrong', 'add_expr gives the formula another meaning', case)
            del r
        except FormulaError as e:
            raise AssertionError('harness: %r: %s' % (s, e))
        except Exception as e:  # noqa
            kind = 'dot' if '.' in s else 'other'
            rec('names:%s:exception:%s' % (kind, type(e).__name__),
                'add_expr rejected a formula whose identifiers are of the documented form: %s'
                % (str(e)[:100],), case)
    forms = [f_ for f_, _ in forms]
    rep.sample(dict(family='identifiers', formula=forms[7], manager=which))
    return rep


def task_roundtrip(t):
    """(j) add_expr(to_expr(u)) == u for every function of three variables, both signs."""
    _, oi, which, focus = t
    rep = run.Report()
    rec = sweep.Rec(rep)
    names = names_for(3, env.SEED)
    U = Universe(names)
    order = sweep.orders(names)[oi]
    which, _, hist = which.partition(':')
    if hist:
        # a manager with a history: node numbers re-used / nodes rewritten in place
        try:
            bdd, hs = sweep.make_history(hist, order, U, None, which == 'autoref')
        except Violation as v:
            rec('context:' + v.what, v.what, dict(task=t))
            return rep
    else:
        bdd = S.new_autoref(order) if which == 'autoref' else S.new_bdd(order)
        refs, b = sweep.build_all(bdd, U, hold=(which != 'autoref'))
        hs = {f: bdd._add_int(r) for f, r in refs.items()} if which == 'autoref' else refs
    for f, u in hs.items():
        if focus is not None and f != focus:
            continue
        case = dict(task=t[:-1] + (f,), u=U.fmt(f), order=sweep.order_str(order), manager=which)
        try:
            s = bdd.to_expr(u)
            back = bdd.add_expr(s)
            rep.add('evaluations')
            if f not in (0, U.full):
                rep.add('nontrivial')
            if O.node_of(back) != O.node_of(u):
                rec('roundtrip', 'add_expr(to_expr(u)) is not u', dict(case, text=s))
            if which == 'autoref' and u.to_expr() != s:
                rec('roundtrip-method', 'Function.to_expr differs from BDD.to_expr', case)
            del back
        except Exception as e:  # noqa
            rec('roundtrip-exception:' + type(e).__name__, 'raised %r' % (e,), case)
    rep.sample(dict(family='roundtrip', u=U.fmt(77), order=sweep.order_str(order),
                    manager=which))
    return rep


TASKS = dict(f=task_formulas, r=task_roundtrip, n=task_names)


def dispatch(t):
    return TASKS[t[0]](t)


def plan(tier):
    ts = [('n', 'bdd', None), ('n', 'autoref', None)]
    fams = ['pairs', 'same', 'chains', 'binders', 'ite+constants', 'lowercase-constants',
            'comments+whitespace', 'nodes']
    if tier == 'quick':
        orders = [0, 3, 7, 9, 14, 16, 20, 23]
        for fam in fams:
            for k, oi in enumerate(orders):
                which = ('bdd', 'autoref')[k % 2]
                ns = 4 if fam in ('binders', 'ite+constants', 'chains', 'pairs') else 1
                for si in range(ns):
                    ts.append(('f', fam, oi, which, si, ns, tier, None))
        for oi in range(6):
            ts.append(('r', oi, ('bdd', 'autoref')[oi % 2], None))
            ts.append(('r', oi, ('autoref', 'bdd')[oi % 2] + ':' + ('K1', 'K2', 'rev')[oi % 3],
                       None))
        for k, fam in enumerate(fams):
            ts.append(('f', fam, orders[k % len(orders)], ('bdd:gc', 'autoref:gc')[k % 2], 0, 1,
                       tier, None))
    else:
        for fam in fams:
            for oi in range(0, 24, 2):
                for which in ('bdd', 'autoref'):
                    ns = 4 if fam in ('binders', 'ite+constants', 'chains', 'pairs') else 1
                    for si in range(ns):
                        ts.append(('f', fam, oi, which, si, ns, tier, None))
        for k, fam in enumerate(fams):
            for oi in (1, 10, 19):
                ts.append(('f', fam, oi, ('bdd:gc', 'autoref:gc')[(k + oi) % 2], 0, 1, tier, None))
        for oi in range(6):
            for which in ('bdd', 'autoref'):
                ts.append(('r', oi, which, None))
                for hist in ('K1', 'K2', 'rev'):
                    ts.append(('r', oi, which + ':' + hist, None))
    return ts


replay = sweep.replay_by_task(dispatch)


def main(tier, t0):
    names = names_for(4, env.SEED)
    counts = {k: len(v) for k, v in families(names, tier)}
    return sweep.run_driver(
        PROP, tier, t0, plan(tier), dispatch,
        rule=('programs generated from the documented grammar: every ordered pair of the 13 binary '
              'spellings x 8 shapes (no / left / right parentheses, permuted operands, negated '
              'operands, redundant parentheses, no whitespace); same spelling 2-3 times; all chains '
              'of three operators (one spelling per precedence level) x operand permutations; '
              'binders \\A \\E \\S (1-2 names, identity and swap substitutions) at the left end, '
              'after every binary spelling, under negation, nested; ite with compound arguments; '
              'constants TRUE FALSE true false; @n and @-n for every node; both comment forms at '
              'every token boundary; whitespace variants; round trip to_expr/add_expr for all of '
              'F(3) in every order; dd.bdd and dd.autoref; each formula is distinct text; all are '
              'non-trivial (an operator or a reference is interpreted)'),
        assumptions=['independent evaluator mc/fml.py written from doc.md (precedence table and '
                     'operator meanings)', "the operator '=' is in the grammar but has no meaning "
                     'in dd.bdd.apply and is not generated'],
        replay_fn=replay,
        extra_cov=dict(formulas_per_family=counts, programs=sum(counts.values())))
