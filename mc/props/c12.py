"""C12 — dump/load round trips (pickle, JSON, whole manager) restore the same functions."""
import itertools
import os

from .. import env, run, sweep
from .. import oracle as O
from .. import state as S
from ..oracle import Violation
from ..ref import Universe, names_for

import dd._copy as _copy

PROP = 'C12'

TARGETS = ('fresh', 'same', 'declared', 'populated', 'extra')


def _mk_target(kind, src, torder, U, names):
    """-> (autoref manager, ledger handles list[(Function, mask)])"""
    if kind == 'same':
        return src, []
    if kind == 'fresh':
        return S.new_autoref(), []
    if kind == 'extra':
        seq = sorted(torder, key=torder.get)
        seq.insert(1, '_e')
        t = S.new_autoref({v: i for i, v in enumerate(seq)})
        return t, []
    t = S.new_autoref(torder)
    held = []
    if kind == 'populated':
        b = sweep.Builder(t, U)
        a, c = names[0], names[-1]
        for f in (U.var(a) & U.var(c), U.var(a) ^ U.var(c), U.full ^ U.var(c)):
            held.append((t._add_int(b.verified(f)), f))
        # garbage too
        b.verified(U.var(a) | U.var(names[1]))
    return t, held


def _ledger(handles):
    ext = {}
    for h in handles:
        ext[abs(h.node)] = ext.get(abs(h.node), 0) + 1
    return ext


def _roundtrip(rec, rep, U, names, src, fn, sorder, torder, rootmasks, as_dict, fmt, flag,
               tkind, case, fname):
    """One dump + load; returns nothing, records violations."""
    hs = [fn[f] for f in rootmasks]
    roots = {('r%d' % i): h for i, h in enumerate(hs)} if as_dict else list(hs)
    src.dump(fname, roots=roots)
    tgt, held = _mk_target(tkind, src, torder, U, names)
    den = O.Den(tgt, U)
    try:
        if fmt == 'pickle':
            back = tgt.load(fname, levels=flag)
        elif flag:
            back = _copy.load_json(fname, tgt, load_order=True)
        else:
            back = tgt.load(fname)
    except Exception as e:  # noqa
        refused = True
        back = None
        err = e
    else:
        refused = False
    rep.add('evaluations')
    live = [h for h, _ in held]
    if tkind == 'same':
        live += list(fn.values())
    if refused:
        # a refusal is acceptable only for the combinations the loader cannot honour
        unacceptable = (
            (fmt == 'pickle' and flag and tkind in ('declared', 'populated', 'extra', 'same')
             and _order_conflict(tgt, sorder, tkind)) or
            (fmt == 'json' and flag and tkind == 'extra'))
        if not unacceptable:
            rec('load-failed:%s:%s' % (fmt, type(err).__name__),
                'load raised %s: %s' % (type(err).__name__, str(err)[:120]), case)
        else:
            rep.add('refusals')
        del err
    else:
        vals = list(back.values()) if as_dict else list(back)
        keys_ok = (set(back) == set(roots)) if as_dict else (len(vals) == len(hs))
        if not keys_ok:
            rec('roots-shape', 'loaded roots do not have the dumped names/positions', case)
        else:
            for i, f in enumerate(rootmasks):
                r = back['r%d' % i] if as_dict else back[i]
                try:
                    got = den(r)
                except Violation as e:
                    rec('loaded-root-broken:' + fmt, e.what, case)
                    continue
                if got != f:
                    rec('wrong-function:%s:%s' % (fmt, 'flag' if flag else 'noflag'),
                        'a loaded root denotes another function', case,
                        got=U.fmt(got), want=U.fmt(f))
        live += [v for v in vals if hasattr(v, 'node')]
        if rootmasks and any(f not in (0, U.full) for f in rootmasks):
            rep.add('nontrivial')
    env.settle()
    try:
        O.check(tgt, _ledger(live), U, O.Den(tgt, U))
        for h, f in held:
            if den.__class__(tgt, U)(h) != f:
                raise Violation('a function already in the target changed')
        if tkind == 'same':
            d2 = O.Den(tgt, U)
            for f, h in fn.items():
                if d2(h) != f:
                    raise Violation('a function of the dumping manager changed')
    except Violation as e:
        rec('target:%s:%s' % (fmt, e.what), e.what, case, **e.detail)


def _order_conflict(tgt, sorder, tkind):
    tv = dict(tgt.vars)
    for v, l in sorder.items():
        if v in tv and tv[v] != l:
            return True
        if v not in tv and l in tv.values():
            return True
    return False


def task_pairs(t):
    """Every (source order, target order) x formats x flags x targets; roots: singletons (+pairs)."""
    _, n, soi, toi, stride, pairs, sctx, focus = t
    rep = run.Report()
    rec = sweep.Rec(rep)
    env.scratch_dir()
    names = names_for(n, env.SEED)
    U = Universe(names + ('_e',))
    ords = sweep.orders(names)
    sorder, torder = ords[soi], ords[toi]
    masks = U.all_functions(names)
    if sctx == 'plain':
        src = S.new_autoref(sorder)
        refs, b = sweep.build_all(src, U, masks, hold=False)
        fn = {f: src._add_int(r) for f, r in refs.items()}
    else:
        # source managers with a HISTORY: node numbers re-used after a collection (K1), swaps
        # there and back (K2), or built in the reverse order and then reordered to `sorder`
        # (numbering not topological, dict order of vars differs from the level order)
        import dd.bdd as _bddmod
        try:
            if sctx == 'reordered':
                rev = {v: n - 1 - l for v, l in sorder.items()}
                m0, refs, ext0, b = sweep.make_context('K1', rev, U, masks)
                _bddmod.reorder(m0, dict(sorder))
            else:
                m0, refs, ext0, b = sweep.make_context(sctx, sorder, U, masks)
        except Violation as v:
            rec('context:' + v.what, v.what, dict(task=t))
            return rep
        src = _autoref_around(m0)
        fn = {f: src._add_int(r) for f, r in refs.items()}
        for r in refs.values():
            m0.decref(r)
    fs = sorted(refs)
    pid = os.getpid()
    combos = []
    for fmt in ('pickle', 'json'):
        for flag in (True, False):
            for tk in TARGETS:
                combos.append((fmt, flag, tk))
    k = 0
    rootsets = [(f,) for f in fs[::stride]]
    if pairs:
        rootsets += [(f, g) for f in fs[::pairs] for g in fs[1::pairs]]
    for rm in rootsets:
        if focus is not None and list(rm) != list(focus):
            continue
        for fmt, flag, tk in combos:
            if fmt == 'json' and all(f in (0, U.full) for f in rm):
                # JSON dump of constants only: nothing but roots in the file; still legal
                pass
            k += 1
            as_dict = bool(k % 2)
            case = dict(task=t[:-1] + (list(rm),), roots=[U.fmt(f) for f in rm], fmt=fmt,
                        source_history=sctx,
                        flag=flag, target=tk, as_dict=as_dict,
                        src=sweep.order_str(sorder), tgt=sweep.order_str(torder))
            fname = 'c12-%d.%s' % (pid, 'p' if fmt == 'pickle' else 'json')
            try:
                _roundtrip(rec, rep, U, names, src, fn, sorder, torder, rm, as_dict, fmt, flag,
                           tk, case, fname)
            except Violation as e:
                rec('broken:' + e.what, e.what, case, **e.detail)
            except Exception as e:  # noqa
                rec('exception:%s:%s' % (fmt, type(e).__name__), 'raised %r' % (e,), case)
    if focus is None:
        rep.sample(dict(src=sweep.order_str(sorder), tgt=sweep.order_str(torder),
                        roots=[U.fmt(fs[len(fs) // 3])], fmt='json', flag=False,
                        target='populated'))
    for ext in ('p', 'json'):
        try:
            os.remove('c12-%d.%s' % (pid, ext))
        except OSError:
            pass
    return rep


def _autoref_around(raw):
    return S.autoref_around(raw)


def task_noroots(t):
    """Pickle dump without roots (all nodes, incl. garbage) loads back; whole-manager pickle."""
    _, n, oi, ctx, _focus = t
    rep = run.Report()
    rec = sweep.Rec(rep)
    env.scratch_dir()
    names = names_for(n, env.SEED)
    U = Universe(names)
    order = sweep.orders(names)[oi]
    pid = os.getpid()
    case = dict(task=t)
    try:
        m, refs, ext, b = sweep.make_context(ctx, order, U)
        base_m, base_ext = S.clone(m), dict(ext)
        # leave garbage: release a quarter
        # (a function and its complement share a node: release both)
        released = sorted({g for f in sorted(refs)[::4] for g in (f, U.full ^ f)})
        for f in released:
            m.decref(refs[f])
            ext[abs(refs[f])] -= 1
        fname = 'c12n-%d.p' % pid
        m.dump(fname)
        want = {O.Den(m, U)(u) for u in m._succ}
        for levels in (True, False):
            for tk in ('fresh', 'declared', 'auto-fresh'):
                rep.add('evaluations')
                rep.add('nontrivial')
                if tk == 'fresh':
                    tgt = S.new_bdd()
                elif tk == 'declared':
                    tgt = S.new_bdd(order)
                else:
                    tgt = S.new_autoref()
                try:
                    tgt.load(fname, levels=levels)
                except Exception as e:  # noqa
                    rec('noroots-load:' + type(e).__name__,
                        'a pickle dump made without roots does not load: %r' % (e,),
                        dict(case, levels=levels, target=tk))
                    continue
                env.settle()
                d = O.Den(tgt, U)
                got = {d(u) for u in O.raw(tgt)._succ}
                if not want <= got | {U.full ^ g for g in got}:
                    rec('noroots-missing', 'a stored function is missing after loading',
                        dict(case, levels=levels, target=tk))
                O.check(tgt, {}, U)
        # whole manager
        fname2 = 'c12m-%d.p' % pid
        m._dump_manager(fname2)
        m2 = type(m)._load_manager(fname2)
        rep.add('evaluations')
        for attr in ('vars', '_succ', '_pred', '_ref', '_min_free', 'roots', 'max_nodes'):
            if getattr(m, attr) != getattr(m2, attr):
                rec('manager-pickle', 'whole-manager pickle does not reproduce ' + attr, case)
        O.check(m2, ext, U)
        d2 = O.Den(m2, U)
        for f, r in refs.items():
            if d2(r) != f:
                rec('manager-pickle-den', 'whole-manager pickle changed a function', case)
                break
        # the same after collections: the node numbering now has HOLES; the loaded manager
        # must go on working like the original.  Several release patterns (which numbers are
        # free decides where the next node goes)
        fs_all = sorted(refs)
        for stride, off in ((4, 0), (4, 1), (3, 0), (3, 2), (5, 2), (2, 1), (7, 3), (16, 5)):
            mm = S.clone(base_m)
            ext_ = dict(base_ext)
            released = sorted({g for f in fs_all[off::stride] for g in (f, U.full ^ f)})
            for f in released:
                mm.decref(refs[f])
                ext_[abs(refs[f])] -= 1
            ext_ = {u_: c for u_, c in ext_.items() if c}
            n_before = len(mm)
            mm.collect_garbage()
            if len(mm) >= n_before:
                raise Violation('harness: the collection freed nothing')
            hcase = dict(case, released_every=stride, offset=off)
            # a pickle of ALL nodes (no roots named) of a manager with holes in its numbering
            try:
                mm.dump(fname)
                wantn = {O.Den(mm, U)(u_) for u_ in mm._succ}
                tgt = S.new_bdd()
                tgt.load(fname)
                dn = O.Den(tgt, U)
                gotn = {dn(u_) for u_ in tgt._succ}
                rep.add('evaluations')
                if not wantn <= gotn | {U.full ^ g_ for g_ in gotn}:
                    rec('noroots-holes-missing', 'a stored function is missing after loading a '
                        'pickle made without roots from a manager with freed node numbers', hcase)
                O.check(tgt, {}, U)
            except Violation as e:
                rec('noroots-holes:' + e.what, e.what, hcase, **e.detail)
            except Exception as e:  # noqa
                rec('noroots-holes-exception:' + type(e).__name__, 'a pickle made without roots '
                    'from a manager with freed node numbers does not load: %r' % (e,), hcase)
            mm._dump_manager(fname2)
            m3 = type(mm)._load_manager(fname2)
            rep.add('evaluations')
            rep.add('nontrivial')
            for attr in ('vars', '_succ', '_ref', 'roots', 'max_nodes'):
                if getattr(mm, attr) != getattr(m3, attr):
                    rec('manager-pickle-holes', 'whole-manager pickle of a manager with freed '
                        'node numbers does not reproduce ' + attr, hcase)
            try:
                O.check(m3, ext_, U)
                b3 = sweep.Builder(m3, U)
                d3 = O.Den(m3, U)
                for f in released:
                    # rebuild the released functions in the loaded manager (new nodes needed)
                    r = b3.verified(f)
                    x = names[f % len(names)]
                    r2 = m3.apply('xor', r, m3.var(x))
                    if d3(r2) != f ^ U.var(x):
                        raise Violation('an operation in the loaded manager gives the wrong '
                                        'function')
                O.check(m3, ext_, U)
                for f, r in refs.items():
                    if f not in released and d3(r) != f:
                        raise Violation('whole-manager pickle changed a function')
            except Violation as e:
                rec('manager-pickle-holes:' + e.what, e.what, hcase, **e.detail)
            except Exception as e:  # noqa
                rec('manager-pickle-holes-exception:' + type(e).__name__,
                    'the manager loaded from a whole-manager pickle (made after a collection) '
                    'fails: %r' % (e,), hcase)
        for fn_ in (fname, fname2):
            os.remove(fn_)
    except Violation as e:
        rec('broken:' + e.what, e.what, case, **e.detail)
    except Exception as e:  # noqa
        rec('exception:' + type(e).__name__, 'raised %r' % (e,), case)
    rep.sample(dict(kind='pickle without roots + whole-manager pickle', ctx=ctx,
                    order=sweep.order_str(order)))
    return rep


ROUTES = ('raw-pickle', 'raw-pickle-protocol', 'upper-p', 'upper-json', 'filetype-pickle',
          'filetype-json', 'module-json', 'module-json-order')


def task_routes(t):
    """The less-travelled ways of writing and reading the same files: raw dd.bdd managers with
    integer roots, extra pickle keywords, upper-case extensions, explicit `filetype` with a
    neutral file name, the module-level JSON functions; every function of n variables."""
    _, n, soi, toi, focus = t
    rep = run.Report()
    rec = sweep.Rec(rep)
    env.scratch_dir()
    names = names_for(n, env.SEED)
    U = Universe(names)
    ords = sweep.orders(names)
    sorder, torder = ords[soi], ords[toi]
    src = S.new_autoref(sorder)
    refs, b = sweep.build_all(src, U, hold=False)
    fn = {f: src._add_int(r) for f, r in refs.items()}
    raw = src._bdd
    pid = os.getpid()
    fs = sorted(refs)
    made = set()
    if focus is None:
        # empty collections of roots (pickle): nothing but the variables is transferred
        for empty in ([], {}):
            case = dict(task=t, roots=[], route='empty-roots', as_dict=isinstance(empty, dict))
            try:
                fname = 'c12r-%d.p' % pid
                src.dump(fname, roots=empty)
                made.add(fname)
                tgt = S.new_autoref()
                back = tgt.load(fname)
                rep.add('evaluations')
                if back != empty or type(back) is not type(empty):
                    rec('routes-empty', 'a pickle dump with an empty collection of roots does '
                        'not load to the same empty collection', case)
                if sweep.order_str(dict(tgt.vars)) != sweep.order_str(sorder):
                    rec('routes-empty-order', 'a pickle dump with no roots did not carry the '
                        'variable order', case)
                O.check(tgt, {}, U)
            except Violation as e:
                rec('routes-empty-broken:' + e.what, e.what, case, **e.detail)
            except Exception as e:  # noqa
                rec('routes-empty-exception:' + type(e).__name__, 'raised %r' % (e,), case)
    for k, f in enumerate(fs):
        g = fs[(k * 7 + 3) % len(fs)]
        for route in ROUTES:
            if focus is not None and sweep.norm([f, route]) != sweep.norm(focus):
                continue
            as_dict = bool((k + len(route)) % 2)
            case = dict(task=t[:-1] + ([f, route],), roots=[U.fmt(f), U.fmt(g)], route=route,
                        as_dict=as_dict, src=sweep.order_str(sorder), tgt=sweep.order_str(torder))
            try:
                hs = [fn[f], fn[g]]
                if route.startswith('raw'):
                    items = [h.node for h in hs]
                else:
                    items = hs
                roots = {'first': items[0], 'second': items[1]} if as_dict else list(items)
                live = []
                if route == 'raw-pickle':
                    fname = 'c12r-%d.p' % pid
                    raw.dump(fname, roots=roots)
                    tgt = S.new_bdd(sorder)
                    back = tgt.load(fname)
                elif route == 'raw-pickle-protocol':
                    fname = 'c12r-%d.p' % pid
                    raw.dump(fname, roots, 'pickle', protocol=4)
                    tgt = S.new_bdd(torder)
                    back = tgt.load(fname, levels=False)
                elif route == 'upper-p':
                    fname = 'C12Upper-%d.P' % pid
                    src.dump(fname, roots)
                    tgt = S.new_autoref()
                    back = tgt.load(fname)
                elif route == 'upper-json':
                    fname = 'C12Upper-%d.JSON' % pid
                    src.dump(fname, roots)
                    tgt = S.new_autoref(torder)
                    back = tgt.load(fname)
                elif route == 'filetype-pickle':
                    tmp, fname = 'c12r-%d.dat' % pid, 'c12r-%d.p' % pid
                    src.dump(tmp, roots=roots, filetype='pickle')
                    os.replace(tmp, fname)
                    tgt = S.new_autoref(torder)
                    back = tgt.load(fname, False)
                elif route == 'filetype-json':
                    tmp, fname = 'c12r-%d.dat' % pid, 'c12r-%d.json' % pid
                    src.dump(tmp, roots=roots, filetype='json')
                    os.replace(tmp, fname)
                    tgt = S.new_autoref()
                    back = tgt.load(fname)
                elif route == 'module-json':
                    fname = 'c12r-%d.json' % pid
                    _copy.dump_json(roots, fname)
                    tgt = S.new_autoref(torder)
                    back = _copy.load_json(fname, tgt)
                else:
                    fname = 'c12r-%d.json' % pid
                    _copy.dump_json(roots, fname)
                    tgt = S.new_autoref()
                    back = _copy.load_json(fname, tgt, load_order=True)
                    if sweep.order_str(dict(tgt.vars)) != sweep.order_str(sorder):
                        rec('routes-order', 'load_order=True into an empty manager did not '
                            'reproduce the order of the file', case)
                made.add(fname)
                rep.add('evaluations')
                if f not in (0, U.full) or g not in (0, U.full):
                    rep.add('nontrivial')
                if as_dict:
                    ok = isinstance(back, dict) and set(back) == {'first', 'second'}
                    vals = [back['first'], back['second']] if ok else []
                else:
                    ok = isinstance(back, list) and len(back) == 2
                    vals = list(back) if ok else []
                if not ok:
                    rec('routes-shape:' + route, 'loaded roots do not have the dumped '
                        'names/positions', case)
                    continue
                den = O.Den(tgt, U)
                for r, want in zip(vals, (f, g)):
                    if den(r) != want:
                        rec('routes-wrong:' + route, 'a loaded root denotes another function '
                            '(%s)' % route, case)
                if not route.startswith('raw'):
                    live = vals
                env.settle()
                O.check(tgt, _ledger(live), U, O.Den(tgt, U))
                del vals, back, live
            except Violation as e:
                rec('routes-broken:' + e.what, e.what, case, **e.detail)
            except Exception as e:  # noqa
                rec('routes-exception:%s:%s' % (route, type(e).__name__), 'raised %r' % (e,), case)
    # dump, REORDER the dumping manager, dump again: the second file must describe the manager
    # as it is now (anything remembered from the first dump is stale)
    if focus is None or (isinstance(focus, (list, tuple)) and focus[1] == 'redump'):
        import dd.bdd as _bddm
        for k, f in enumerate(fs[3::8]):
            if focus is not None and f != focus[0]:
                continue
            for ext_ in ('json', 'p'):
                case = dict(task=t[:-1] + ([f, 'redump'],), roots=[U.fmt(f)],
                            route='dump, reorder the source, dump again (%s)' % ext_)
                try:
                    fname = 'c12r-%d.%s' % (pid, ext_)
                    src.dump(fname, [fn[f]])
                    n_ = len(raw.vars)
                    if k % 2:
                        _bddm.reorder(raw, {v: n_ - 1 - l for v, l in raw.vars.items()})
                    else:
                        raw.swap(0, 1)
                    src.dump(fname, {'again': fn[f]})
                    made.add(fname)
                    want_order = sweep.order_str(dict(raw.vars))
                    for flag in (True, False):
                        tgt = S.new_autoref()
                        if ext_ == 'json':
                            back = _copy.load_json(fname, tgt, load_order=flag)
                        else:
                            back = tgt.load(fname, levels=flag)
                        rep.add('evaluations')
                        rep.add('nontrivial')
                        if O.Den(tgt, U)(back['again']) != f:
                            rec('redump-wrong:' + ext_, 'a file dumped after the dumping manager '
                                'was reordered loads to another function', dict(case, flag=flag))
                        if flag and sweep.order_str(dict(tgt.vars)) != want_order:
                            rec('redump-order:' + ext_, 'a file dumped after reordering does not '
                                'carry the new order', dict(case, flag=flag))
                        env.settle()
                        O.check(tgt, _ledger([back['again']]), U, O.Den(tgt, U))
                        del back
                except Violation as e:
                    rec('redump-broken:' + e.what, e.what, case, **e.detail)
                except Exception as e:  # noqa
                    rec('redump-exception:%s:%s' % (ext_, type(e).__name__), 'raised %r' % (e,),
                        case)
    for fname in made:
        try:
            os.remove(fname)
        except OSError:
            pass
    if focus is None:
        rep.sample(dict(kind='routes', routes=list(ROUTES), src=sweep.order_str(sorder),
                        tgt=sweep.order_str(torder)))
    return rep


TASKS = dict(p=task_pairs, n=task_noroots, r=task_routes)


def dispatch(t):
    return TASKS[t[0]](t)


def plan(tier):
    ts = []
    if tier == 'quick':
        for soi in range(6):
            for toi in range(6):
                ts.append(('p', 3, soi, toi, 37 if soi != toi else 5, 0, 'plain', None))
        ts.append(('p', 3, 0, 5, 256, 37, 'plain', None))
        for k, sctx in enumerate(('K1', 'K2', 'reordered')):
            for soi, toi in ((0, 0), (1, 4), (5, 2)):
                ts.append(('p', 3, soi, toi, 7, 0, sctx, None))
        for oi in range(6):
            ts.append(('n', 3, oi, ('K0', 'K1', 'K2')[oi % 3], None))
        for soi in range(6):
            ts.append(('r', 3, soi, (soi + 3) % 6, None))
    else:
        for soi in range(6):
            for toi in range(6):
                ts.append(('r', 3, soi, toi, None))
        for soi in range(6):
            for toi in range(6):
                ts.append(('p', 3, soi, toi, 1, 0, 'plain', None))
                ts.append(('p', 3, soi, toi, 3, 0, ('K1', 'K2', 'reordered')[(soi + toi) % 3], None))
        for soi, toi in ((0, 5), (2, 3), (4, 4)):
            ts.append(('p', 3, soi, toi, 256, 9, 'plain', None))
            ts.append(('p', 3, soi, toi, 256, 9, 'reordered', None))
        for oi in range(6):
            for ctx in ('K0', 'K1', 'K2'):
                ts.append(('n', 3, oi, ctx, None))
        for oi in range(0, 24, 3):
            ts.append(('n', 4, oi, 'K1', None))
    return ts


replay = sweep.replay_by_task(dispatch)


def main(tier, t0):
    return sweep.run_driver(
        PROP, tier, t0, plan(tier), dispatch,
        rule=('every pair (source order, target order) of 3 named variables x root tuples '
              '(singletons over every k-th function by index: k stated in the task list; pairs on '
              'listed order pairs) x roots as list/dict x {pickle, JSON} x {levels | load_order} '
              'true/false x target in {fresh, same manager, pre-declared, pre-populated, extra '
              'variable}; pickle dumps without roots after histories K0-K2 with garbage; whole-'
              'manager pickles; the same files written and read through the other documented '
              'routes (raw managers with integer roots, pickle keywords, upper-case extensions, '
              'explicit filetype, module-level JSON functions) for every function; '
              'non-trivial = a non-constant root; distinct by construction. '
              'A refusal (exception) is accepted only where the file order conflicts with the '
              'target and the flag asks to keep it.'),
        assumptions=['truth-table model; independent oracle on the receiving manager with the '
                     'ledger = returned roots (+ functions already held)'],
        replay_fn=replay,
        exhaustive=(tier == 'thorough'))
