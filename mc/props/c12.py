"""C12 — dump/load round trips (pickle, JSON, whole manager) restore the same functions."""
import itertools
import os

from .. import env, run, sweep
from .. import oracle as O
from .. import state as S
from ..oracle import Violation
from ..ref import Universe, names_for

import dd._copy as _copy

PROP = 'C12'

TARGETS = ('fresh', 'same', 'declared', 'populated', 'extra')


def _mk_target(kind, src, torder, U, names):
    """-> (autoref manager, ledger handles list[(Function, mask)])"""
    if kind == 'same':
        return src, []
    if kind == 'fresh':
        return S.new_autoref(), []
    if kind == 'extra':
        seq = sorted(torder, key=torder.get)
        seq.insert(1, '_e')
        t = S.new_autoref({v: i for i, v in enumerate(seq)})
        return t, []
    t = S.new_autoref(torder)
    held = []
    if kind == 'populated':
        b = sweep.Builder(t, U)
        a, c = names[0], names[-1]
        for f in (U.var(a) & U.var(c), U.var(a) ^ U.var(c), U.full ^ U.var(c)):
            held.append((t._add_int(b.verified(f)), f))
        # garbage too
        b.verified(U.var(a) | U.var(names[1]))
    return t, held


def _ledger(handles):
    ext = {}
    for h in handles:
        ext[abs(h.node)] = ext.get(abs(h.node), 0) + 1
    return ext


def _roundtrip(rec, rep, U, names, src, fn, sorder, torder, rootmasks, as_dict, fmt, flag,
               tkind, case, fname):
    """One dump + load; returns nothing, records violations."""
    hs = [fn[f] for f in rootmasks]
    roots = {('r%d' % i): h for i, h in enumerate(hs)} if as_dict else list(hs)
    src.dump(fname, roots=roots)
    tgt, held = _mk_target(tkind, src, torder, U, names)
    den = O.Den(tgt, U)
    try:
        if fmt == 'pickle':
            back = tgt.load(fname, levels=flag)
        elif flag:
            back = _copy.load_json(fname, tgt, load_order=True)
        else:
            back = tgt.load(fname)
    except Exception as e:  # noqa
        refused = True
        back = None
        err = e
    else:
        refused = False
    rep.add('evaluations')
    live = [h for h, _ in held]
    if tkind == 'same':
        live += list(fn.values())
    if refused:
        # a refusal is acceptable only for the combinations the loader cannot honour
        unacceptable = (
            (fmt == 'pickle' and flag and tkind in ('declared', 'populated', 'extra', 'same')
             and _order_conflict(tgt, sorder, tkind)) or
            (fmt == 'json' and flag and tkind == 'extra'))
        if not unacceptable:
            rec('load-failed:%s:%s' % (fmt, type(err).__name__),
                'load raised %s: %s' % (type(err).__name__, str(err)[:120]), case)
        else:
            rep.add('refusals')
        del err
    else:
        vals = list(back.values()) if as_dict else list(back)
        keys_ok = (set(back) == set(roots)) if as_dict else (len(vals) == len(hs))
        if not keys_ok:
            rec('roots-shape', 'loaded roots do not have the dumped names/positions', case)
        else:
            for i, f in enumerate(rootmasks):
                r = back['r%d' % i] if as_dict else back[i]
                try:
                    got = den(r)
                except Violation as e:
                    rec('loaded-root-broken:' + fmt, e.what, case)
                    continue
                if got != f:
                    rec('wrong-function:%s:%s' % (fmt, 'flag' if flag else 'noflag'),
                        'a loaded root denotes another function', case,
                        got=U.fmt(got), want=U.fmt(f))
        live += [v for v in vals if hasattr(v, 'node')]
        if rootmasks and any(f not in (0, U.full) for f in rootmasks):
            rep.add('nontrivial')
    env.settle()
    try:
        O.check(tgt, _ledger(live), U, O.Den(tgt, U))
        for h, f in held:
            if den.__class__(tgt, U)(h) != f:
                raise Violation('a function already in the target changed')
        if tkind == 'same':
            d2 = O.Den(tgt, U)
            for f, h in fn.items():
                if d2(h) != f:
                    raise Violation('a function of the dumping manager changed')
    except Violation as e:
        rec('target:%s:%s' % (fmt, e.what), e.what, case, **e.detail)


def _order_conflict(tgt, sorder, tkind):
    tv = dict(tgt.vars)
    for v, l in sorder.items():
        if v in tv and tv[v] != l:
            return True
        if v not in tv and l in tv.values():
            return True
    return False


def task_pairs(t):
    """Every (source order, target order) x formats x flags x targets; roots: singletons (+pairs)."""
    _, n, soi, toi, stride, pairs, sctx, focus = t
    rep = run.Report()
    rec = sweep.Rec(rep)
    env.scratch_dir()
    names = names_for(n, env.SEED)
    U = Universe(names + ('_e',))
    ords = sweep.orders(names)
    sorder, torder = ords[soi], ords[toi]
    masks = U.all_functions(names)
    if sctx == 'plain':
        src = S.new_autoref(sorder)
        refs, b = sweep.build_all(src, U, masks, hold=False)
        fn = {f: src._add_int(r) for f, r in refs.items()}
    else:
        # source managers with a HISTORY: node numbers re-used after a collection (K1), swaps
        # there and back (K2), or built in the reverse order and then reordered to `sorder`
        # (numbering not topological, dict order of vars differs from the level order)
        import dd.bdd as _bddmod
        try:
            if sctx == 'reordered':
                rev = {v: n - 1 - l for v, l in sorder.items()}
                m0, refs, ext0, b = sweep.make_context('K1', rev, U, masks)
                _bddmod.reorder(m0, dict(sorder))
            else:
                m0, refs, ext0, b = sweep.make_context(sctx, sorder, U, masks)
        except Violation as v:
            rec('context:' + v.what, v.what, dict(task=t))
            return rep
        src = _autoref_around(m0)
        fn = {f: src._add_int(r) for f, r in refs.items()}
        for r in refs.values():
            m0.decref(r)
    fs = sorted(refs)
    pid = os.getpid()
    combos = []
    for fmt in ('pickle', 'json'):
        for flag in (True, False):
            for tk in TARGETS:
                combos.append((fmt, flag, tk))
    k = 0
    rootsets = [(f,) for f in fs[::stride]]
    if pairs:
        rootsets += [(f, g) for f in fs[::pairs] for g in fs[1::pairs]]
    for rm in rootsets:
        if focus is not None and list(rm) != list(focus):
            continue
        for fmt, flag, tk in combos:
            if fmt == 'json' and all(f in (0, U.full) for f in rm):
                # JSON dump of constants only: nothing but roots in the file; still legal
                pass
            k += 1
            as_dict = bool(k % 2)
            case = dict(task=t[:-1] + (list(rm),), roots=[U.fmt(f) for f in rm], fmt=fmt,
                        source_history=sctx,
                        flag=flag, target=tk, as_dict=as_dict,
                        src=sweep.order_str(sorder), tgt=sweep.order_str(torder))
            fname = 'c12-%d.%s' % (pid, 'p' if fmt == 'pickle' else 'json')
            try:
                _roundtrip(rec, rep, U, names, src, fn, sorder, torder, rm, as_dict, fmt, flag,
                           tk, case, fname)
            except Violation as e:
                rec('broken:' + e.what, e.what, case, **e.detail)
            except Exception as e:  # noqa
                rec('exception:%s:%s' % (fmt, type(e).__name__), 'raised %r' % (e,), case)
    if focus is None:
        rep.sample(dict(src=sweep.order_str(sorder), tgt=sweep.order_str(torder),
                        roots=[U.fmt(fs[len(fs) // 3])], fmt='json', flag=False,
                        target='populated'))
    for ext in ('p', 'json'):
        try:
            os.remove('c12-%d.%s' % (pid, ext))
        except OSError:
            pass
    return rep


def _autoref_around(raw):
    return S.autoref_around(raw)


def task_noroots(t):
    """Pickle dump without roots (all nodes, incl. garbage) loads back; whole-manager pickle."""
    _, n, oi, ctx, _focus = t
    rep = run.Report()
    rec = sweep.Rec(rep)
    env.scratch_dir()
    names = names_for(n, env.SEED)
    U = Universe(names)
    order = sweep.orders(names)[oi]
    pid = os.getpid()
    case = dict(task=t)
    try:
        m, refs, ext, b = sweep.make_context(ctx, order, U)
        # leave garbage: release a quarter
        for f in sorted(refs)[::4]:
            m.decref(refs[f])
            ext[abs(refs[f])] -= 1
        fname = 'c12n-%d.p' % pid
        m.dump(fname)
        want = {O.Den(m, U)(u) for u in m._succ}
        for levels in (True, False):
            for tk in ('fresh', 'declared', 'auto-fresh'):
                rep.add('evaluations')
                rep.add('nontrivial')
                if tk == 'fresh':
                    tgt = S.new_bdd()
                elif tk == 'declared':
                    tgt = S.new_bdd(order)
                else:
                    tgt = S.new_autoref()
                try:
                    tgt.load(fname, levels=levels)
                except Exception as e:  # noqa
                    rec('noroots-load:' + type(e).__name__,
                        'a pickle dump made without roots does not load: %r' % (e,),
                        dict(case, levels=levels, target=tk))
                    continue
                env.settle()
                d = O.Den(tgt, U)
                got = {d(u) for u in O.raw(tgt)._succ}
                if not want <= got | {U.full ^ g for g in got}:
                    rec('noroots-missing', 'a stored function is missing after loading',
                        dict(case, levels=levels, target=tk))
                O.check(tgt, {}, U)
        # whole manager
        fname2 = 'c12m-%d.p' % pid
        m._dump_manager(fname2)
        m2 = type(m)._load_manager(fname2)
        rep.add('evaluations')
        for attr in ('vars', '_succ', '_pred', '_ref', '_min_free', 'roots', 'max_nodes'):
            if getattr(m, attr) != getattr(m2, attr):
                rec('manager-pickle', 'whole-manager pickle does not reproduce ' + attr, case)
        O.check(m2, ext, U)
        d2 = O.Den(m2, U)
        for f, r in refs.items():
            if d2(r) != f:
                rec('manager-pickle-den', 'whole-manager pickle changed a function', case)
                break
        for fn_ in (fname, fname2):
            os.remove(fn_)
    except Violation as e:
        rec('broken:' + e.what, e.what, case, **e.detail)
    except Exception as e:  # noqa
        rec('exception:' + type(e).__name__, 'raised %r' % (e,), case)
    rep.sample(dict(kind='pickle without roots + whole-manager pickle', ctx=ctx,
                    order=sweep.order_str(order)))
    return rep


TASKS = dict(p=task_pairs, n=task_noroots)


def dispatch(t):
    return TASKS[t[0]](t)


def plan(tier):
    ts = []
    if tier == 'quick':
        for soi in range(6):
            for toi in range(6):
                ts.append(('p', 3, soi, toi, 37 if soi != toi else 5, 0, 'plain', None))
        ts.append(('p', 3, 0, 5, 256, 37, 'plain', None))
        for k, sctx in enumerate(('K1', 'K2', 'reordered')):
            for soi, toi in ((0, 0), (1, 4), (5, 2)):
                ts.append(('p', 3, soi, toi, 7, 0, sctx, None))
        for oi in range(6):
            ts.append(('n', 3, oi, ('K0', 'K1', 'K2')[oi % 3], None))
    else:
        for soi in range(6):
            for toi in range(6):
                ts.append(('p', 3, soi, toi, 1, 0, 'plain', None))
                ts.append(('p', 3, soi, toi, 3, 0, ('K1', 'K2', 'reordered')[(soi + toi) % 3], None))
        for soi, toi in ((0, 5), (2, 3), (4, 4)):
            ts.append(('p', 3, soi, toi, 256, 9, 'plain', None))
            ts.append(('p', 3, soi, toi, 256, 9, 'reordered', None))
        for oi in range(6):
            for ctx in ('K0', 'K1', 'K2'):
                ts.append(('n', 3, oi, ctx, None))
        for oi in range(0, 24, 3):
            ts.append(('n', 4, oi, 'K1', None))
    return ts


replay = sweep.replay_by_task(dispatch)


def main(tier, t0):
    return sweep.run_driver(
        PROP, tier, t0, plan(tier), dispatch,
        rule=('every pair (source order, target order) of 3 named variables x root tuples '
              '(singletons over every k-th function by index: k stated in the task list; pairs on '
              'listed order pairs) x roots as list/dict x {pickle, JSON} x {levels | load_order} '
              'true/false x target in {fresh, same manager, pre-declared, pre-populated, extra '
              'variable}; pickle dumps without roots after histories K0-K2 with garbage; whole-'
              'manager pickles; non-trivial = a non-constant root; distinct by construction. '
              'A refusal (exception) is accepted only where the file order conflicts with the '
              'target and the flag asks to keep it.'),
        assumptions=['truth-table model; independent oracle on the receiving manager with the '
                     'ledger = returned roots (+ functions already held)'],
        replay_fn=replay,
        exhaustive=(tier == 'thorough'))
