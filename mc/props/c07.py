"""C07 — reordering never changes what a held reference denotes."""
import itertools

from .. import env, run, sweep
from .. import oracle as O
from .. import state as S
from ..oracle import Violation
from ..ref import Universe, names_for
from ..explore import bfs
from ..machines import BddMachine

import dd.bdd as _bdd
import dd.autoref as _autoref

PROP = 'C07'


def _held_sets(fs, pair_stride):
    """All singletons, and pairs (f, g) with g over every pair_stride-th function."""
    for f in fs:
        yield (f,)
    if pair_stride:
        for a in range(len(fs)):
            for b_ in range(a + 1, len(fs), pair_stride):
                yield (fs[a], fs[b_])


def _setup(names, order, U, held_masks, garbage=True):
    m = S.new_bdd(order)
    b = sweep.Builder(m, U)
    held = []
    ext = {}
    for f in held_masks:
        r = b.verified(f)
        m.incref(r)
        held.append(r)
        ext[abs(r)] = ext.get(abs(r), 0) + 1
    if garbage:
        # unreferenced nodes lying around
        b(U.var(names[0]) ^ U.var(names[-1]))
    return m, held, ext


def _check_after(m, U, held, held_masks, ext, ids=None):
    den = O.Den(m, U)
    O.check(m, ext, U, den)
    for r, f in zip(held, held_masks):
        if abs(r) not in m._succ:
            raise Violation('a held reference was deleted by reordering')
        if den(r) != f:
            raise Violation('a held reference changed denotation', got=U.fmt(den(r)),
                            want=U.fmt(f))


def task_swap(t):
    _, n, oi, stride, si, ns, focus = t
    rep = run.Report()
    rec = sweep.Rec(rep)
    names = names_for(n, env.SEED)
    U = Universe(names)
    order = sweep.orders(names)[oi]
    fs = list(range(1 << U.N))
    sets = list(_held_sets(fs, stride))
    mine = sweep.shard(sets, ns)[si]
    seq = sorted(order, key=order.get)
    for hm in mine:
        if focus is not None and list(hm) != list(focus):
            continue
        for l in range(n - 1):
            for byname in (False, True):
                if byname and (hm[0] + l) % 5:
                    continue
                case = dict(task=t[:-1] + (list(hm),), held=[U.fmt(f) for f in hm], level=l,
                            order=sweep.order_str(order), byname=byname)
                try:
                    m, held, ext = _setup(names, order, U, hm)
                    if byname:
                        m.swap(seq[l + 1], seq[l])
                    else:
                        m.swap(l, l + 1)
                    _check_after(m, U, held, hm, ext)
                    want = list(seq)
                    want[l], want[l + 1] = want[l + 1], want[l]
                    if sorted(m.vars, key=m.vars.get) != want:
                        raise Violation('swap did not exchange exactly the two levels')
                    rep.add('evaluations')
                    if any(f not in (0, U.full) for f in hm):
                        rep.add('nontrivial')
                except Violation as e:
                    rec('swap:' + e.what, e.what, case, **e.detail)
                except Exception as e:  # noqa
                    rec('swap-exception:' + type(e).__name__, 'raised %r' % (e,), case)
    if si == 0 and focus is None:
        rep.sample(dict(kind='swap', order=sweep.order_str(order), held=[U.fmt(fs[77 % len(fs)])],
                        level=0))
    return rep


def task_sort(t):
    """reorder(bdd, order) for source x target permutations; dd.bdd and dd.autoref."""
    _, n, soi, stride, si, ns, focus = t
    rep = run.Report()
    rec = sweep.Rec(rep)
    names = names_for(n, env.SEED)
    U = Universe(names)
    ords = sweep.orders(names)
    order = ords[soi]
    fs = list(range(1 << U.N)) if n <= 3 else _probe4(U)
    sets = list(_held_sets(fs, stride))
    mine = sweep.shard(sets, ns)[si]
    for hm in mine:
        if focus is not None and list(hm) != list(focus):
            continue
        for toi, target in enumerate(ords):
            case = dict(task=t[:-1] + (list(hm),), held=[U.fmt(f) for f in hm],
                        source=sweep.order_str(order), target=sweep.order_str(target))
            try:
                m, held, ext = _setup(names, order, U, hm)
                if (toi + hm[0]) % 2:
                    a = S.autoref_around(m)
                    a.reorder(dict(target))
                else:
                    _bdd.reorder(m, dict(target))
                if dict(m.vars) != dict(target):
                    raise Violation('the requested order does not hold after reorder(order)',
                                    got=dict(m.vars))
                _check_after(m, U, held, hm, ext)
                rep.add('evaluations')
                if soi != toi and any(f not in (0, U.full) for f in hm):
                    rep.add('nontrivial')
            except Violation as e:
                rec('sort:' + e.what, e.what, case, **e.detail)
            except Exception as e:  # noqa
                rec('sort-exception:' + type(e).__name__, 'raised %r' % (e,), case)
    if si == 0 and focus is None:
        rep.sample(dict(kind='reorder(order)', source=sweep.order_str(order),
                        target=sweep.order_str(ords[-1]), held=[U.fmt(fs[len(fs) // 3])]))
    return rep


def _probe4(U):
    X = [U.var(n) for n in U.names]
    F = U.full
    ps = list(X)
    for i, j in itertools.combinations(range(len(X)), 2):
        ps += [X[i] & X[j], X[i] ^ X[j]]
    ps += [(X[0] & X[1]) | (X[2] & X[3]), (X[0] & X[2]) | (X[1] & X[3]),
           X[0] ^ X[1] ^ X[2] ^ X[3], (X[0] | X[3]) & (F ^ X[1] | X[2]),
           (X[0] & X[1]) | (X[1] & X[2]) | (X[0] & X[2])]
    if len(X) > 4:
        ps += [(X[0] & X[1]) | (X[2] & X[3]) | X[4], X[0] ^ X[4], (X[0] & X[4]) | (X[1] & X[3])]
    return ps


def pairings(names):
    """Every set of disjoint name pairs, as dict in every orientation."""
    names = list(names)

    def rec_(rest):
        if len(rest) < 2:
            yield []
            return
        a = rest[0]
        # a unpaired
        for p in rec_(rest[1:]):
            yield p
        for i in range(1, len(rest)):
            b_ = rest[i]
            for p in rec_(rest[1:i] + rest[i + 1:]):
                yield [(a, b_)] + p
    for p in rec_(names):
        if not p:
            continue
        for flips in itertools.product((0, 1), repeat=len(p)):
            for perm in itertools.permutations(range(len(p))):
                d = {}
                for k in perm:
                    a, b_ = p[k]
                    if flips[k]:
                        a, b_ = b_, a
                    d[a] = b_
                yield d


def task_pairs(t):
    """reorder_to_pairs for every pairing over n names."""
    _, n, oi, _f = t
    rep = run.Report()
    rec = sweep.Rec(rep)
    names = names_for(n, env.SEED)
    U = Universe(names)
    order = sweep.orders(names)[oi]
    hm = tuple(_probe4(U)[-4:]) if n >= 4 else (U.var(names[0]) & U.var(names[-1]),
                                                 U.var(names[0]) ^ U.var(names[1]))
    seen = set()
    for d in pairings(names):
        key = tuple(d.items())
        if key in seen:
            continue
        seen.add(key)
        case = dict(task=t, pairs=d, order=sweep.order_str(order))
        try:
            m, held, ext = _setup(names, order, U, hm)
            _bdd.reorder_to_pairs(m, dict(d))
            for a, b_ in d.items():
                if abs(m.vars[a] - m.vars[b_]) != 1:
                    raise Violation('a requested pair is not adjacent after reorder_to_pairs',
                                    pair=[a, b_], got=dict(m.vars))
            _check_after(m, U, held, hm, ext)
            rep.add('evaluations')
            if any(abs(order[a] - order[b_]) != 1 for a, b_ in d.items()):
                rep.add('nontrivial')
        except Violation as e:
            rec('pairs:' + e.what, e.what, case, **e.detail)
        except Exception as e:  # noqa
            rec('pairs-exception:' + type(e).__name__, 'raised %r' % (e,), case)
    rep.sample(dict(kind='reorder_to_pairs', order=sweep.order_str(order),
                    pairs={names[0]: names[-1]}))
    return rep


def task_sift(t):
    """Sifting: reorder(bdd) repeated until stable and once more; len never grows."""
    _, n, oi, stride, si, ns, focus = t
    rep = run.Report()
    rec = sweep.Rec(rep)
    names = names_for(n, env.SEED)
    U = Universe(names)
    order = sweep.orders(names)[oi]
    fs = list(range(1 << U.N)) if n <= 3 else _probe4(U)
    sets = list(_held_sets(fs, stride))
    mine = sweep.shard(sets, ns)[si]
    for hm in mine:
        if focus is not None and list(hm) != list(focus):
            continue
        case = dict(task=t[:-1] + (list(hm),), held=[U.fmt(f) for f in hm],
                    order=sweep.order_str(order))
        try:
            m, held, ext = _setup(names, order, U, hm)
            for rnd in range(6):
                m.collect_garbage()
                before = len(m)
                prev = dict(m.vars)
                # the order in which sifting will visit the LEVELS (set iteration of names)
                visit = tuple(m.vars[v] for v in set(m.vars))
                rep.mark('visiting_orders_n%d' % n, visit)
                _bdd.reorder(m)
                if len(m) > before:
                    raise Violation('sifting ended with more nodes than it started with',
                                    before=before, after=len(m))
                _check_after(m, U, held, hm, ext)
                rep.add('evaluations')
                if dict(m.vars) != prev:
                    rep.add('nontrivial')
                elif rnd >= 1:
                    break
        except Violation as e:
            rec('sift:' + e.what, e.what, case, **e.detail)
        except Exception as e:  # noqa
            rec('sift-exception:' + type(e).__name__, 'raised %r' % (e,), case)
    if si == 0 and focus is None:
        rep.sample(dict(kind='sifting', order=sweep.order_str(order),
                        held=[U.fmt(fs[len(fs) // 3])]))
    return rep


def task_big(t):
    """Large instances: functions with several hundred nodes over 14 variables (level pairs
    holding hundreds of nodes; also 20 variables, ~2 000 nodes): every adjacent swap, sifting,
    and sorting to the
    interleaved order."""
    _, which, k, _f = t
    rep = run.Report()
    rec = sweep.Rec(rep)
    a = ['a%d' % i for i in range(k)]
    bb = ['b%d' % i for i in range(k)]
    names = tuple(a + bb)
    U = Universe(names)
    f = 0
    g = 0
    for i in range(k):
        f |= U.var(a[i]) & U.var(bb[i])
        g ^= U.var(a[i]) & U.var(bb[(i + 1) % k])
    order = {v: i for i, v in enumerate(names)}     # all a's above all b's: exponential size

    base = []

    def setup():
        if base:
            return S.clone(base[0]), list(base[1]), dict(base[2])
        base.extend(setup0())
        return setup()

    def setup0():
        m = S.new_bdd(order)
        b = sweep.Builder(m, U)
        held, ext = [], {}
        for fn_ in (f, g):
            r = b.verified(fn_)
            m.incref(r)
            held.append(r)
            ext[abs(r)] = ext.get(abs(r), 0) + 1
        b(U.var(a[0]) ^ U.var(bb[-1]))      # garbage
        return m, held, ext
    cases = []
    if which == 'swaps':
        cases = [('swap', l) for l in range(len(names) - 1)]
    elif which == 'sift':
        cases = [('sift', 0)]
    else:
        cases = [('sort', 0), ('pairs', 0)]
    for kind, l in cases:
        case = dict(task=t, kind=kind, level=l)
        try:
            m, held, ext = setup()
            n0 = len(m)
            rep.max('big_nodes', n0)
            if kind == 'swap':
                m.swap(l, l + 1)
            elif kind == 'sift':
                m.collect_garbage()
                n0 = len(m)
                _bdd.reorder(m)
                if len(m) > n0:
                    raise Violation('sifting ended with more nodes than it started with')
            elif kind == 'sort':
                tgt = {}
                for i in range(k):
                    tgt[a[i]] = 2 * i
                    tgt[bb[i]] = 2 * i + 1
                _bdd.reorder(m, tgt)
                if dict(m.vars) != tgt:
                    raise Violation('the requested order does not hold after reorder(order)')
            else:
                _bdd.reorder_to_pairs(m, {a[i]: bb[i] for i in range(0, k, 2)})
                for i in range(0, k, 2):
                    if abs(m.vars[a[i]] - m.vars[bb[i]]) != 1:
                        raise Violation('a requested pair is not adjacent after reorder_to_pairs')
            den = O.Den(m, U)
            O.check(m, ext, None)
            for r, fn_ in zip(held, (f, g)):
                if den(r) != fn_:
                    raise Violation('a held reference changed denotation (large instance)')
            rep.add('evaluations')
            rep.add('nontrivial')
        except Violation as e:
            rec('big:' + e.what, e.what, case, **e.detail)
        except Exception as e:  # noqa
            rec('big-exception:' + type(e).__name__, 'raised %r' % (e,), case)
    rep.sample(dict(kind='large instance', variables=len(names), what=which))
    return rep


def task_empty(t):
    """Managers with zero and one variable."""
    rep = run.Report()
    rec = sweep.Rec(rep)
    for nvars in (0, 1):
        for how in ('sift', 'sort', 'autoref'):
            case = dict(task=t, nvars=nvars, how=how)
            try:
                order = {'x': 0} if nvars else {}
                m = S.new_bdd(order)
                held, ext = [], {}
                U = Universe(tuple(order))
                if nvars:
                    r = m.var('x')
                    m.incref(r)
                    held, ext = [r], {abs(r): 1}
                if how == 'sift':
                    _bdd.reorder(m)
                elif how == 'sort':
                    _bdd.reorder(m, dict(order))
                else:
                    a = S.autoref_around(m)
                    a.reorder()
                _check_after(m, U, held, [U.var('x')] if nvars else [], ext)
                rep.add('evaluations')
            except Violation as e:
                rec('small:' + e.what, e.what, case)
            except Exception as e:  # noqa
                rec('small-exception:%s:%d' % (type(e).__name__, nvars),
                    'reordering a manager with %d variables raised %r' % (nvars, e), case)
    return rep


TASKS = dict(swap=task_swap, sort=task_sort, pairs=task_pairs, sift=task_sift, empty=task_empty,
             big=task_big)


def dispatch(t):
    return TASKS[t[0]](t)


def plan(tier):
    ts = [('empty', None)]
    for k in (7, 10):
        # k pairs a_i, b_i in the order a* b*: level pairs holding 2**(k-1) nodes
        ts += [('big', 'swaps', k, None), ('big', 'sift', k, None), ('big', 'sort', k, None)]
    if tier == 'quick':
        for oi in range(6):
            for si in range(2):
                ts.append(('swap', 3, oi, 2, si, 2, None))
            ts.append(('sort', 3, oi, 0, 0, 1, None))
            ts.append(('sort', 3, oi, 11, 0, 2, None))
            ts.append(('sort', 3, oi, 11, 1, 2, None))
            ts.append(('sift', 3, oi, 3, 0, 1, None))
        for oi in range(0, 24, 2):
            ts.append(('sort', 4, oi, 5, 0, 1, None))
            ts.append(('sift', 4, oi, 3, 0, 1, None))
        ts.append(('pairs', 4, 0, None))
        ts.append(('pairs', 4, 13, None))
        ts.append(('pairs', 3, 4, None))
    else:
        for oi in range(6):
            for si in range(4):
                ts.append(('swap', 3, oi, 1, si, 4, None))
            for si in range(4):
                ts.append(('sort', 3, oi, 5, si, 4, None))
                ts.append(('sift', 3, oi, 1, si, 4, None))
        for oi in range(24):
            ts.append(('sort', 4, oi, 1, 0, 1, None))
            ts.append(('sift', 4, oi, 1, 0, 1, None))
            ts.append(('pairs', 4, oi, None))
        for oi in range(0, 120, 7):
            ts.append(('pairs', 5, oi, None))
            ts.append(('sift', 5, oi, 2, 0, 1, None))
    return ts


def deep_machines(tier):
    a = dict(names=('x', 'y', 'z'), max_handles=2, max_ext=1, ops=('xor',), with_ite=False,
             with_foa=False, with_refops=False, with_sort=True, seeds=('fresh', 'used'))
    b4 = dict(names=('x', 'y', 'z', 'w'), max_handles=2, max_ext=1, ops=('and',), with_ite=False,
              with_foa=False, with_refops=False, with_sort=True, with_collect=True,
              seeds=('used',))
    pl = [('reorder3', a, 5)] if tier == 'quick' else [('reorder3', a, 6), ('reorder4', b4, 4)]
    out = []
    for label, kw, depth in pl:
        kw = dict(kw)
        mm = BddMachine(kw.pop('names'), **kw)
        mm.name = 'bdd-history/' + label
        out.append((mm, depth))
    return out


_by_task = sweep.replay_by_task(dispatch)


def replay(case):
    if 'trace' in case:
        mm = BddMachine(tuple(case['names']), max_handles=9, max_ext=9, with_sort=True)
        return mm.replay(case)
    return _by_task(case)


def main(tier, t0):
    rep = run.Report()
    tasks = plan(tier)
    run.pmerge(dispatch, tasks, rep)
    run.close_pool()
    deep = dict(states=0, transitions=0, validated=0)
    bounds = {}
    for mach, depth in deep_machines(tier):
        r = run.Report()
        res = bfs(mach, depth, r)
        run.close_pool()
        for v in r.violations:
            v['case']['names'] = list(mach.names)
        for s in r.samples:
            s['names'] = list(mach.names)
        rep.merge(r)
        for k in deep:
            deep[k] += res[k]
        bounds[mach.name] = dict(depth_completed=res['completed_depth'],
                                 states_per_layer=res['layers'])
    vo = {k: sorted(v) for k, v in rep.sets.items() if k.startswith('visiting_orders')}
    for k, v in vo.items():
        rep.sections[k] = dict(distinct=len(v), all=[list(x) for x in v][:30])
    cov = dict(
        evaluations=rep.counts.get('evaluations', 0) + deep['transitions'],
        distinct_nontrivial=rep.counts.get('nontrivial', 0),
        rule=('swap: every singleton and (strided) pair of held functions of F(3) x every adjacent '
              'pair x every order, by level and by name; reorder(order): every source x target '
              'permutation (n=3 all held singletons + strided pairs; n=4 probe family) through '
              'dd.bdd.reorder and autoref.BDD.reorder; reorder_to_pairs: every pairing in every '
              'orientation and insertion order (n=3,4; 5 thorough); sifting: repeated until the '
              'order is stable and once more, the level-visiting orders actually seen are listed; '
              'managers with 0 and 1 variables; BFS over histories of swaps / sorts / sifting / '
              'collections. non-trivial = the order really changed / held function non-constant; '
              'distinct by construction'),
        exhaustive=True,
        states=deep['states'], transitions=deep['transitions'],
        traces_validated_against_impl=deep['validated'],
        history_bounds=bounds, tasks=len(tasks))
    return run.finish(PROP, 'model_checking', tier, rep, t0, cov,
                      assumptions=['truth-table model; independent oracle (exact counts with the '
                                   'ledger of held references)'],
                      replay_fn=replay)
