"""C08 — dd.autoref keeps live Functions valid and releases exactly what is dropped.

Explicit-state BFS over dd.autoref: a state is the real underlying manager plus the
list of LIVE Function objects. States travel between worker processes as (manager,
[(node, mask)]) and the Function objects are re-created around the copied manager
without touching its counts (the copied counts already include them); every
operation itself goes through the public dd.autoref API. The deepest layer is
replayed from the public constructor (fresh manager, operations re-executed).
"""
import pickle

from .. import env, run
from .. import oracle as O
from .. import state as S
from ..oracle import Violation
from ..ref import Universe
from ..explore import bfs, Machine

import dd.autoref as _autoref
import dd.bdd as _bdd
import dd._copy as _copy

PROP = 'C08'


def _wrap(raw):
    return S.autoref_around(raw)


def _adopt(bdd, node):
    """A Function object (built by its real constructor) for a reference that the copied
    counts already include: the constructor's own reference is given back at once."""
    f = _autoref.Function(node, bdd)
    bdd._bdd.decref(node)
    return f


class ASt:
    """raw manager + live Function objects (with recorded masks)."""

    def __init__(self, raw, fns=None, masks=None, aux=None):
        self.m = raw
        self.bdd = _wrap(raw)
        self.fns = fns or []
        self.masks = masks or []
        self.aux = aux or {}

    def __getstate__(self):
        # anything else the wrapper object carries (a cache somebody adds to it) travels too
        extra = {k: v for k, v in self.bdd.__dict__.items() if k not in ('_bdd', 'vars')}
        return (self.m, [f.node for f in self.fns], list(self.masks), dict(self.aux), extra)

    def __setstate__(self, s):
        self.m, nodes, self.masks, self.aux = s[:4]
        self.bdd = _wrap(self.m)
        if len(s) > 4:
            self.bdd.__dict__.update(s[4])
        self.fns = [_adopt(self.bdd, n) for n in nodes]


EXPRS = [
    '{x} /\\ ~ {y}',
    '\\E {x}: ({x} <=> {y})',
    '{x} # {y} # {z}',
    'ite({x}, {y}, ~ {z})',
]


# rejected part-way, after sub-results were built: nothing of them may stay referenced
BAD_EXPRS = [
    '({x} /\\ ~ {y}) \\/ ({x} /\\ _undeclared)',
    '({y} # {x}) => ({x} \\/ )',
    'ite({x}, {y} /\\ {x}, @987654)',
]


class AutorefMachine(Machine):
    name = 'autoref'

    def __init__(self, names, max_live=3, reordering=(False,), ops=('and', 'or'),
                 rich=True, forced=(), traversal=True, seeds=('fresh', 'used'), files=False,
                 compare=False):
        self.names = tuple(names)
        self.files = files
        self.compare = compare
        self.U = Universe(self.names)
        self.max_live = max_live
        self.reordering = tuple(reordering)
        self.ops = tuple(ops)
        self.rich = rich
        self.forced = tuple(forced)
        self.traversal = traversal
        self._seeds = tuple(seeds)

    # ------------------------------------------------------------ seeds
    def seed_labels(self):
        out = []
        for s in self._seeds:
            for r in self.reordering:
                out.append('%s/%s' % (s, r))
        return out

    def seed(self, label):
        kind, r = label.split('/')
        U = self.U
        bdd = S.new_autoref({n: i for i, n in enumerate(self.names)})
        st = ASt(bdd._bdd)
        st.bdd = bdd
        if kind == 'used':
            a, b = self.names[:2]
            x, y = bdd.var(a), bdd.var(b)
            tmp = [x & y, x | y, x.equiv(y), ~x & y]
            keep = x.implies(y)
            del tmp, x, y
            bdd.collect_garbage()
            st.fns = [keep]
            st.masks = [U.op('implies', U.var(a), U.var(b))]
        if r != 'False':
            bdd.configure(reordering=True)
            # the library's own comparison succeeds when the manager reaches 2*value nodes
            st.m._last_len = float(r)
        return st

    # ------------------------------------------------------------ alphabet
    def actions(self, st):
        acts = []
        n = len(st.fns)
        room = n < self.max_live
        idx = range(n)
        if room:
            for x in self.names:
                acts.append(('var', x))
            acts.append(('true',))
            for op in self.ops:
                for i in idx:
                    for j in idx:
                        if i <= j:
                            acts.append((op, i, j))
            for i in idx:
                acts.append(('not', i))
            if self.rich:
                for i in idx:
                    for j in idx:
                        for k in idx:
                            if len({i, j, k}) == min(3, n):
                                acts.append(('ite', i, j, k))
                for i in idx:
                    x = self.names[i % len(self.names)]
                    y = self.names[(i + 1) % len(self.names)]
                    acts.append(('let_const', i, x, True))
                    acts.append(('let_ren', i, x, y))
                    acts.append(('exist', i, y))
                    for j in idx:
                        acts.append(('let_fn', i, x, j))
                        if len(self.names) >= 2:
                            # constants (as Functions) mixed with a function, both dict orders
                            acts.append(('let_mixed', i, x, j, 0))
                            acts.append(('let_mixed', i, x, j, 1))
                for k in range(len(EXPRS)):
                    acts.append(('add_expr', k))
                for k in range(len(BAD_EXPRS)):
                    acts.append(('bad_expr', k))
                acts.append(('cube', self.names[0], self.names[-1]))
                for i in idx:
                    acts.append(('copy_roundtrip', i))
                if self.files:
                    for i in idx:
                        acts.append(('file_rt', i, 'p'))
                        acts.append(('file_rt', i, 'json'))
                        for how in ('cut', 'dangling'):
                            acts.append(('bad_json', i, how, False))
                            acts.append(('bad_json', i, how, True))
            if self.traversal:
                for i in idx:
                    acts.append(('low', i))
                    acts.append(('high', i))
                    acts.append(('dup', i))
        if self.traversal:
            for i in idx:
                acts.append(('succ_drop', i))
                if n + 2 <= self.max_live:
                    acts.append(('succ_keep', i))
        for i in idx:
            acts.append(('del', i))
        acts.append(('collect',))
        acts.append(('reorder',))
        if len(self.names) >= 2:
            acts.append(('reorder_rev',))
        out = list(acts)
        for k in self.forced:
            for a in acts:
                if a[0] in ('var', 'and', 'or', 'xor', 'ite', 'let_fn', 'let_mixed', 'let_ren', 'exist',
                            'add_expr', 'cube', 'copy_roundtrip', 'let_const'):
                    out.append(('F%d' % k,) + a)
        return out

    # ------------------------------------------------------------ transitions
    def apply(self, st, a, check=True):
        if a[0].startswith('F') and a[0][1:].isdigit():
            from .c09 import Seam
            k = int(a[0][1:])
            seam = Seam()
            if not seam.available() or getattr(st.m, '_last_len', None) is None:
                return self._apply(st, a[1:], check)
            with seam:
                seam.arm((k,))
                try:
                    return self._apply(st, a[1:], check)
                finally:
                    seam.disarm()
        return self._apply(st, a, check)

    def _apply(self, st, a, check):
        bdd, U = st.bdd, self.U
        fns, masks = st.fns, st.masks
        kind = a[0]
        new = None
        want = None
        if kind == 'var':
            new, want = bdd.var(a[1]), U.var(a[1])
        elif kind == 'true':
            new, want = bdd.true, U.full
        elif kind in ('and', 'or', 'xor', 'implies', 'equiv'):
            u, v = fns[a[1]], fns[a[2]]
            if kind == 'and':
                new = u & v
            elif kind == 'or':
                new = u | v
            elif kind == 'xor':
                new = bdd.apply('xor', u, v)
            elif kind == 'implies':
                new = u.implies(v)
            else:
                new = u.equiv(v)
            want = U.op(kind, masks[a[1]], masks[a[2]])
        elif kind == 'not':
            new, want = ~fns[a[1]], U.neg(masks[a[1]])
        elif kind == 'ite':
            _, i, j, k = a
            new = bdd.ite(fns[i], fns[j], fns[k])
            want = U.ite(masks[i], masks[j], masks[k])
        elif kind == 'let_const':
            _, i, x, val = a
            new = bdd.let({x: val}, fns[i])
            want = U.restrict(masks[i], {x: val})
        elif kind == 'let_ren':
            _, i, x, y = a
            new = bdd.let({x: y}, fns[i])
            want = U.rename(masks[i], {x: y})
        elif kind == 'let_fn':
            _, i, x, j = a
            new = bdd.let({x: fns[j]}, fns[i])
            want = U.compose(masks[i], {x: masks[j]})
        elif kind == 'bad_expr':
            nm = dict(zip('xyz', self.names + self.names))
            try:
                r = bdd.add_expr(BAD_EXPRS[a[1]].format(**nm))
                del r
            except Exception:  # noqa
                pass
            return
        elif kind == 'let_mixed':
            _, i, x, j, flip = a
            y = self.names[(self.names.index(x) + 1) % len(self.names)]
            const = bdd.false if flip else bdd.true
            d = {y: fns[j], x: const} if flip else {x: const, y: fns[j]}
            new = bdd.let(d, fns[i])
            want = U.compose(masks[i], {x: 0 if flip else U.full, y: masks[j]})
            del d, const
        elif kind == 'exist':
            _, i, x = a
            new = bdd.exist([x], fns[i])
            want = U.exists(masks[i], [x])
        elif kind == 'add_expr':
            nm = dict(zip('xyz', self.names + self.names))
            new = bdd.add_expr(EXPRS[a[1]].format(**nm))
            X = {k: U.var(v) for k, v in nm.items()}
            F = U.full
            want = [X['x'] & (F ^ X['y']),
                    U.exists(F ^ (X['x'] ^ X['y']), [nm['x']]),
                    X['x'] ^ X['y'] ^ X['z'],
                    U.ite(X['x'], X['y'], F ^ X['z'])][a[1]]
        elif kind == 'cube':
            d = {a[1]: True, a[2]: False} if a[1] != a[2] else {a[1]: True}
            new = bdd.cube(d)
            want = U.cube_mask(d)
        elif kind == 'copy_roundtrip':
            other = S.new_autoref({n: i for i, n in enumerate(reversed(self.names))})
            there = bdd.copy(fns[a[1]], other)
            new = _autoref.copy_bdd(there, bdd)
            want = masks[a[1]]
            del there
        elif kind == 'file_rt':
            import os
            env.scratch_dir()
            fname = 'c08-%d.%s' % (os.getpid(), a[2])
            bdd.dump(fname, [fns[a[1]]])
            back = bdd.load(fname)
            os.remove(fname)
            if check and len(back) != 1:
                raise Violation('load returned another number of roots than were dumped')
            new, want = back[0], masks[a[1]]
            del back
        elif kind == 'bad_json':
            # a damaged JSON dump of a live function is loaded into the same manager: whatever
            # the loader does (raise, or load a prefix), the live Functions keep their counts
            import os
            env.scratch_dir()
            fname = 'c08-%d.json' % os.getpid()
            bdd.dump(fname, [fns[a[1]]])
            lines = open(fname).read().splitlines()
            if a[2] == 'cut':
                lines = lines[:max(2, len(lines) - 2)]
            else:
                ks = [k for k, l in enumerate(lines) if l.startswith('"') and '[' in l and
                      not l.startswith('"level_of_var"') and not l.startswith('"roots"')]
                if ks:
                    head, rest = lines[ks[-1]].split('[', 1)
                    parts = rest.rstrip('],').split(',')
                    parts[1] = ' 424242'
                    lines[ks[-1]] = head + '[' + ','.join(parts) + '],'
                else:
                    lines = lines[:-1]
            open(fname, 'w').write('\n'.join(lines) + '\n')
            try:
                back = _copy.load_json(fname, bdd, load_order=a[3])
                del back
            except Exception:  # noqa
                pass
            os.remove(fname)
            return
        elif kind in ('low', 'high'):
            child = getattr(fns[a[1]], kind)
            if child is None:
                return
            new = child
            want = self._child_mask(st, fns[a[1]], kind)
        elif kind == 'dup':
            new = bdd._add_int(int(fns[a[1]]))
            want = masks[a[1]]
        elif kind in ('succ_drop', 'succ_keep'):
            lvl, lo, hi = bdd.succ(fns[a[1]])
            if lo is None:
                return
            if kind == 'succ_keep':
                fns.append(lo)
                masks.append(self._child_mask(st, fns[a[1]], 'low'))
                fns.append(hi)
                masks.append(self._child_mask(st, fns[a[1]], 'high'))
            del lo, hi
            return
        elif kind == 'del':
            del fns[a[1]]
            del masks[a[1]]
            return
        elif kind == 'collect':
            bdd.collect_garbage()
            if check:
                keep = O.reachable(st.m, [f.node for f in fns])
                if set(st.m._succ) != keep:
                    env.settle()
                    bdd.collect_garbage()
                    keep = O.reachable(st.m, [f.node for f in fns])
                if set(st.m._succ) != keep:
                    raise Violation('after collect_garbage the stored nodes are not exactly '
                                    'those reachable from live Functions')
            return
        elif kind == 'reorder':
            bdd.reorder()
            return
        elif kind == 'reorder_rev':
            cur = sorted(bdd.vars, key=bdd.vars.get)
            bdd.reorder({v: i for i, v in enumerate(reversed(cur))})
            return
        else:
            raise KeyError(a)
        if check:
            got = O.Den(st.m, U)(new)
            if got != want:
                raise Violation('an operation returned a Function denoting the wrong function',
                                got=U.fmt(got), want=U.fmt(want))
        if any(new is f for f in fns):
            # the library handed back one of the live Function objects itself (no new handle):
            # the registry must not count it twice
            return
        fns.append(new)
        masks.append(want)

    def _child_mask(self, st, f, which):
        """Function of the low/high child of the NODE of f (the edge's own complement included)."""
        lvl, lo, hi = st.m.succ(f.node)
        return O.Den(st.m, self.U)(lo if which == 'low' else hi)

    # ------------------------------------------------------------ invariants
    def invariant(self, st):
        try:
            self._invariant(st)
        except Violation:
            # a pending finaliser may still hold a Function: settle and judge again
            env.settle()
            self._invariant(st)

    def step_invariant(self, st):
        self._invariant(st, shutdown=False)

    def _wrapper_queries(self, bdd, f, mask):
        """pick / pick_iter (also abandoned half way) / count / support / to_expr of the
        dd.autoref manager, compared with the model."""
        U = self.U
        sup = U.support(mask)
        nm = U.count(mask) >> (U.m - len(sup))
        if set(bdd.support(f)) != sup:
            raise Violation('autoref support(u) is not the set of variables u depends on')
        if bdd.count(f) != nm or bdd.count(f, len(sup) + 1) != 2 * nm:
            raise Violation('autoref count(u) is not the number of models')
        p = bdd.pick(f)
        if (p is None) != (mask == 0):
            raise Violation('autoref pick(u) is None exactly for false is violated')
        if p is not None and (U.cube_mask(p) & ~mask & U.full or set(p) != sup):
            raise Violation('autoref pick(u) is not a model over the support')
        it = bdd.pick_iter(f)
        first = next(iter(it), None)
        del it          # abandoned after one model
        if (first is None) != (mask == 0):
            raise Violation('autoref pick_iter(u) is empty exactly for false is violated')
        cover = 0
        k = 0
        for q in bdd.pick_iter(f, care_vars=set(self.names)):
            cm = U.cube_mask(q)
            if cm & cover or set(q) != set(self.names):
                raise Violation('autoref pick_iter(u, care_vars) repeats or misses a variable')
            cover |= cm
            k += 1
        if cover != mask:
            raise Violation('autoref pick_iter(u, care_vars) does not cover exactly the models')
        if not isinstance(bdd.to_expr(f), str) or f.to_expr() != bdd.to_expr(f):
            raise Violation('to_expr of the manager and of the Function differ')

    def _invariant(self, st, shutdown=True):
        U = self.U
        # queries through the WRAPPER first (pure: they create nothing), so that a reference
        # they take and do not give back shows in the exact counts judged right below
        for f, mask in zip(st.fns, st.masks):
            self._wrapper_queries(st.bdd, f, mask)
        ext = {}
        for f in st.fns:
            ext[abs(f.node)] = ext.get(abs(f.node), 0) + 1
        den = O.Den(st.m, U)
        O.check(st.m, ext, U, den)
        for f, mask in zip(st.fns, st.masks):
            if den(f) != mask:
                raise Violation('a live Function changed denotation',
                                got=U.fmt(den(f)), want=U.fmt(mask))
            # what the handle itself reports must follow the manager (no stale per-handle state)
            if set(f.support) != U.support(mask):
                raise Violation('Function.support of a live Function is wrong')
            if len(f) != len(O.reachable(st.m, [f.node])):
                raise Violation('len() of a live Function is not its number of reachable nodes')
            if f.var is not None and st.m.level_of_var(f.var) != f.level:
                raise Violation('var/level of a live Function disagree with the manager')
            O.observe_queries(st.m, U, f.node, mask)
            # the public accessor of the count reports the count (also for complemented nodes)
            if f.ref != st.m._ref[abs(f.node)]:
                raise Violation('Function.ref does not report the reference count of its node')
        # comparisons between live Functions, evaluated in every state of the machines that ask
        # for it (`<=` computes `other | ~self`: it leaves nodes and cache entries behind)
        F_ = U.full
        for i, (f, mf) in enumerate(zip(st.fns, st.masks) if self.compare else ()):
            for g, mg in list(zip(st.fns, st.masks))[i:]:
                le = (mf & (F_ ^ mg)) == 0
                ge = (mg & (F_ ^ mf)) == 0
                if bool(f <= g) != le or bool(g <= f) != ge:
                    raise Violation('<= between live Functions is wrong (in a history)')
                if bool(f < g) != (le and mf != mg) or bool(g < f) != (ge and mf != mg):
                    raise Violation('< between live Functions is wrong (in a history)')
                if bool(f == g) != (mf == mg) or bool(f != g) != (mf != mg):
                    raise Violation('== / != between live Functions is wrong (in a history)')
        if not shutdown:
            return
        # drop everything, in several orders, on copies: shutdown check must pass
        n = len(st.fns)
        orders = [list(range(n)), list(reversed(range(n)))]
        for r in range(1, n):
            orders.append(list(range(r, n)) + list(range(r)))
        blob = pickle.dumps(st, pickle.HIGHEST_PROTOCOL)
        seen = set()
        for o in orders:
            if tuple(o) in seen:
                continue
            seen.add(tuple(o))
            c = pickle.loads(blob)
            for k in o:
                c.fns[k] = None
            c.fns = []
            err = S.shutdown_check(c.m)
            if err:
                raise Violation('the shutdown check fails after all Functions were dropped',
                                drop_order=o, error=err[:120])
            c.m.collect_garbage()
            if set(c.m._succ) != {1}:
                raise Violation('a collection after dropping all Functions leaves more than the '
                                'terminal', drop_order=o, left=sorted(c.m._succ))

    def key(self, st):
        pairs = sorted(zip([f.node for f in st.fns], st.masks))
        extra = sorted((k, repr(v)) for k, v in st.bdd.__dict__.items()
                       if k not in ('_bdd', 'vars'))
        return S.key(st.m, (pairs, extra))

    def unexpected(self, exc, action):
        return 'exception:%s@%s' % (type(exc).__name__, action[0])


def machines(tier):
    if tier == 'quick':
        pl = [
            ('core2', dict(names=('x', 'y'), max_live=3, ops=('and', 'or'), rich=False), 5),
            ('rich2', dict(names=('x', 'y'), max_live=2, ops=('and',), rich=True,
                           traversal=False), 4),
            ('dyn3', dict(names=('x', 'y', 'z'), max_live=3, ops=('and', 'xor'), rich=False,
                          reordering=(1.5, 2.5), seeds=('fresh', 'used'), traversal=False), 5),
            ('forced2', dict(names=('x', 'y', 'z'), max_live=2, ops=('xor',), rich=True,
                             reordering=(100.0,), forced=(1, 2), traversal=False,
                             seeds=('used',)), 3),
            ('files2', dict(names=('x', 'y'), max_live=2, ops=('and',), rich=True, files=True,
                            traversal=False, seeds=('used',)), 3),
            ('compare3', dict(names=('x', 'y', 'z'), max_live=2, ops=('and', 'or'), rich=False,
                              traversal=False, compare=True, seeds=('used', 'fresh')), 6),
        ]
    else:
        pl = [
            ('core2', dict(names=('x', 'y'), max_live=3, ops=('and', 'or'), rich=False), 6),
            ('core3', dict(names=('x', 'y', 'z'), max_live=4, ops=('and', 'xor'), rich=False), 4),
            ('rich2', dict(names=('x', 'y'), max_live=3, ops=('and',), rich=True), 4),
            ('rich3', dict(names=('x', 'y', 'z'), max_live=2, ops=('xor',), rich=True), 4),
            ('dyn3', dict(names=('x', 'y', 'z'), max_live=3, ops=('and', 'xor'), rich=False,
                          reordering=(1.5, 2.5, 4.0), seeds=('fresh', 'used')), 5),
            ('dynrich3', dict(names=('x', 'y', 'z'), max_live=2, ops=('xor',), rich=True,
                              reordering=(1.5, 3.0), traversal=False), 4),
            ('forced3', dict(names=('x', 'y', 'z'), max_live=2, ops=('xor',), rich=True,
                             reordering=(100.0,), forced=(1, 2, 3, 4), traversal=False,
                             seeds=('used', 'fresh')), 3),
            ('files3', dict(names=('x', 'y', 'z'), max_live=2, ops=('xor',), rich=True, files=True,
                            traversal=False, reordering=(False, 2.5)), 3),
            ('compare3', dict(names=('x', 'y', 'z'), max_live=3, ops=('and', 'or'), rich=False,
                              traversal=False, compare=True, seeds=('used', 'fresh')), 6),
        ]
    out = []
    for label, kw, depth in pl:
        mm = AutorefMachine(**kw)
        mm.name = 'autoref/' + label
        out.append((mm, depth))
    return out


def replay(case):
    for tier in ('thorough', 'quick'):
        for mm, _ in machines(tier):
            if mm.name == case['machine']:
                return mm.replay(case)
    return None


def main(tier, t0):
    rep = run.Report()
    total = dict(states=0, transitions=0, validated=0)
    bounds = {}
    for mach, depth in machines(tier):
        r = run.Report()
        res = bfs(mach, depth, r)
        run.close_pool()
        rep.merge(r)
        for k in total:
            total[k] += res[k]
        bounds[mach.name] = dict(names=list(mach.names), depth_completed=res['completed_depth'],
                                 states_per_layer=res['layers'],
                                 reordering=[str(x) for x in mach.reordering],
                                 forced_positions=list(mach.forced),
                                 alphabet=sorted({k[4:] for k in r.counts if k.startswith('act:')}))
    cov = dict(
        states=total['states'], transitions=total['transitions'],
        traces_validated_against_impl=total['validated'],
        exhaustive=not rep.caps, bounds=bounds,
        explanation=(
            'in every state: count(node) == stored in-edges + number of live Function objects '
            'pointing at it (exact), every live Function denotes its recorded function, and on '
            'copies of the state all Functions are dropped in creation order, reverse order and '
            'every rotation, after which the shutdown check dd.bdd.BDD.__del__ passes and a '
            'collection leaves only the terminal. Dynamic reordering: seeds with the library '
            'threshold set so that it fires naturally along the history, and a machine where '
            'each node-creating operation is also run with the trigger forced at position k.'))
    return run.finish(PROP, 'model_checking', tier, rep, t0, cov,
                      assumptions=['Function objects are re-created around a copied manager '
                                   'without incref (documented attributes node/bdd/manager); the '
                                   'replay of the deepest layer from the constructor validates '
                                   'this'],
                      replay_fn=replay)
