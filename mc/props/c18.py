"""C18 — structural views (low/high, succ, descendants, sizes, to_nx, DOT) are faithful."""
import os
import re

from .. import env, run, sweep
from .. import oracle as O
from .. import state as S
from ..oracle import Violation
from ..ref import Universe, names_for

import dd.bdd as _bdd

PROP = 'C18'

_ATTR = re.compile(r'(\w+)="([^"]*)"')
_EDGE = re.compile(r'^\s*("[^"]*"|[\w-]+) -> ("[^"]*"|[\w-]+) \[(.*)\];\s*$')
_NODE = re.compile(r'^\s*("[^"]*"|[\w-]+) \[(.*)\];\s*$')


def parse_dot(text):
    """Reader for the DOT subset written by dd: returns nodes, edges, roots, levels."""
    nodes = {}      # id -> label
    level_of = {}   # id -> level label of the enclosing rank=same subgraph
    edges = []      # (src, dst, attrs)
    cur = None
    block = []
    for line in text.splitlines():
        s = line.strip()
        if s.startswith('subgraph'):
            block = []
            cur = 'open'
            continue
        if s == '}':
            if cur is not None:
                lvl = None
                for nid, attrs in block:
                    if nid.startswith('"L'):
                        lvl = attrs.get('label')
                for nid, attrs in block:
                    if not nid.startswith('"L'):
                        level_of[nid] = lvl
                cur = None
            continue
        me = _EDGE.match(line)
        if me:
            edges.append((me.group(1), me.group(2), dict(_ATTR.findall(me.group(3)))))
            continue
        mn = _NODE.match(line)
        if mn:
            attrs = dict(_ATTR.findall(mn.group(2)))
            nodes[mn.group(1)] = attrs.get('label')
            if cur is not None:
                block.append((mn.group(1), attrs))
    return nodes, edges, level_of


def eval_dot(text, U, order):
    """-> (dict root label '@k' -> mask, set of node ids, problems)."""
    nodes, edges, level_of = parse_dot(text)
    lo, hi, roots = {}, {}, {}
    for s, d, a in edges:
        if a.get('style') == 'invis':
            continue
        comp = a.get('taillabel') == '-1'
        if s.startswith('"ref'):
            roots[nodes[s]] = (d, comp)
        elif a.get('style') == 'dashed':
            if s in lo:
                raise Violation('DOT: two else edges on one node')
            lo[s] = (d, comp)
        elif a.get('style') == 'solid':
            if s in hi:
                raise Violation('DOT: two then edges on one node')
            if comp:
                raise Violation('DOT: complement mark on a then edge')
            hi[s] = (d, False)
        else:
            raise Violation('DOT: edge with unknown style')
    real = {n for n in nodes if not n.startswith('"')}
    memo = {}

    def ev(n):
        if n in memo:
            return memo[n]
        label = nodes[n]
        var = label.rsplit('-', 1)[0]
        if n not in lo and n not in hi:
            if var != 'True':
                raise Violation('DOT: leaf that is not labelled True', label=label)
            memo[n] = U.full
            return U.full
        if n not in lo or n not in hi:
            raise Violation('DOT: node without exactly one then and one else edge', label=label)
        if var not in U.idx:
            raise Violation('DOT: node labelled with an unknown variable', label=label)
        if str(order[var]) != str(level_of.get(n)):
            raise Violation('DOT: node drawn at the wrong level', label=label,
                            level=level_of.get(n))
        d0, c0 = lo[n]
        d1, _ = hi[n]
        f0 = ev(d0)
        if c0:
            f0 = U.full ^ f0
        f1 = ev(d1)
        x = U.var(var)
        memo[n] = (x & f1) | ((U.full ^ x) & f0)
        return memo[n]
    out = {}
    for lab, (d, comp) in roots.items():
        f = ev(d)
        out[lab] = (U.full ^ f) if comp else f
    for n in real:
        ev(n)
    return out, {int(n) for n in real}


def eval_nx(g, U, bdd):
    memo = {}

    def ev(n):
        if n in memo:
            return memo[n]
        outs = list(g.out_edges(n, data=True))
        lvl = g.nodes[n].get('level')
        if not outs:
            if lvl != len(bdd.vars):
                raise Violation('to_nx: leaf not at the terminal level')
            memo[n] = U.full
            return U.full
        lows = [(d, a) for _, d, a in outs if a.get('value') is False]
        highs = [(d, a) for _, d, a in outs if a.get('value') is True]
        if len(lows) != 1 or len(highs) != 1 or len(outs) != 2:
            raise Violation('to_nx: node without exactly one then and one else edge', node=n)
        if highs[0][1].get('complement'):
            raise Violation('to_nx: complemented then edge', node=n)
        x = U.var(bdd.var_at_level(lvl))
        f0 = ev(lows[0][0])
        if lows[0][1].get('complement'):
            f0 = U.full ^ f0
        f1 = ev(highs[0][0])
        memo[n] = (x & f1) | ((U.full ^ x) & f0)
        return memo[n]
    for n in g.nodes:
        ev(n)
    return memo


def traverse_function(u, U):
    """User-style traversal with Function.var/low/high/negated."""
    if u.var is None:
        base = U.full
    else:
        x = U.var(u.var)
        lo, hi = u.low, u.high
        # low/high describe the node; the complement of the reference itself is u.negated
        f0 = traverse_function(lo, U)
        f1 = traverse_function(hi, U)
        base = (x & f1) | ((U.full ^ x) & f0)
    return (U.full ^ base) if u.negated else base


def traverse_succ(bdd, u, U, auto):
    """Traversal with succ(u): (level, low, high) of the node of u."""
    neg = (u.negated if auto else u < 0)
    lvl, lo, hi = bdd.succ(u)
    if lo is None:
        base = U.full
    else:
        x = U.var(bdd.var_at_level(lvl))
        f0 = traverse_succ(bdd, lo, U, auto)
        f1 = traverse_succ(bdd, hi, U, auto)
        base = (x & f1) | ((U.full ^ x) & f0)
    return (U.full ^ base) if neg else base


def task(t):
    _, n, oi, pairs, si, ns, focus = t
    rep = run.Report()
    rec = sweep.Rec(rep)
    env.scratch_dir()
    names = names_for(n, env.SEED)
    U = Universe(names)
    oi, hist = sweep.split_oi(oi)
    order = sweep.orders(names)[oi]
    if hist:
        # a manager with a history: node numbers are not topological, nodes rewritten in place
        try:
            bdd, fn = sweep.make_history(hist, order, U, None, auto=True)
        except Violation as v:
            rec('context:' + v.what, v.what, dict(task=t))
            return rep
        raw = bdd._bdd
        refs = {f: h.node for f, h in fn.items()}
    else:
        bdd = S.new_autoref(order)
        raw = bdd._bdd
        refs, b = sweep.build_all(bdd, U, hold=False)
        fn = {f: bdd._add_int(r) for f, r in refs.items()}
    fs = sorted(refs)
    mine = sweep.shard(fs, ns)[si]
    fname = 'c18-%d.dot' % os.getpid()

    def views(rootmasks, case):
        roots = [refs[f] for f in rootmasks]
        hs = [fn[f] for f in rootmasks]
        want_nodes = O.reachable(raw, roots)
        # (ii) descendants / sizes
        d = raw.descendants(roots)
        rep.add('evaluations')
        if set(d) != want_nodes:
            rec('descendants', 'descendants is not the reachable set', case)
        for f, h in zip(rootmasks, hs):
            k = len(O.reachable(raw, [h.node]))
            if len(h) != k or h.dag_size != k:
                rec('len', 'len(u)/dag_size is not the number of reachable nodes', case)
        # (iii) networkx export
        g = _bdd.to_nx(raw, set(roots))
        rep.add('evaluations')
        if set(g.nodes) != want_nodes:
            rec('to_nx-nodes', 'to_nx does not contain exactly the reachable nodes', case)
        vals = eval_nx(g, U, raw)
        for nd in g.nodes:
            if g.nodes[nd].get('level') != raw._succ[nd][0]:
                rec('to_nx-level', 'to_nx level attribute is wrong', case)
        for f, r in zip(rootmasks, roots):
            got = vals[abs(r)]
            if r < 0:
                got = U.full ^ got
            if got != f:
                rec('to_nx-eval', 'evaluating the to_nx graph gives another function', case)
        # (iv) DOT text: through the manager's dump and through _to_dot
        texts = [_bdd._to_dot(roots, raw).to_dot()]
        bdd.dump(fname, roots=hs, filetype='dot')
        with open(fname) as fd:
            texts.append(fd.read())
        raw.dump(fname, roots=roots)
        with open(fname) as fd:
            texts.append(fd.read())
        for text in texts:
            rep.add('evaluations')
            rootvals, nodeset = eval_dot(text, U, order)
            if nodeset != want_nodes:
                rec('dot-nodes', 'DOT does not contain exactly the reachable nodes', case)
            for f, r in zip(rootmasks, roots):
                if rootvals.get('@%d' % r) != f:
                    rec('dot-eval', 'evaluating the DOT graph gives another function', case,
                        got=rootvals.get('@%d' % r))
    for fu in mine:
        if focus is not None and fu != focus:
            continue
        u = fn[fu]
        case = dict(task=t[:-1] + (fu,), u=U.fmt(fu))
        try:
            # (i) traversals
            rep.add('evaluations', 3)
            if traverse_function(u, U) != fu:
                rec('traverse-lowhigh', 'expanding on var/low/high/negated gives another function',
                    case)
            if traverse_succ(bdd, u, U, True) != fu:
                rec('traverse-succ-autoref', 'expanding with autoref succ gives another function',
                    case)
            if traverse_succ(raw, refs[fu], U, False) != fu:
                rec('traverse-succ-bdd', 'expanding with dd.bdd succ gives another function', case)
            if u.var is not None and u.level != order[u.var]:
                rec('level', 'Function.level disagrees with Function.var', case)
            views([fu], case)
            if fu not in (0, U.full):
                rep.add('nontrivial', 8)
            if pairs:
                for fv in fs[::pairs]:
                    views([fu, fv], dict(case, v=U.fmt(fv)))
                    rep.add('nontrivial', 5)
        except Violation as e:
            rec('broken:' + e.what, e.what, case, **e.detail)
        except Exception as e:  # noqa
            rec('exception:' + type(e).__name__, 'raised %r' % (e,), case)
    # the same Function objects after reorderings (a view must not remember the old shape)
    seq0 = sorted(bdd.vars, key=bdd.vars.get)
    phases = []
    if n >= 3:
        lowswap = list(seq0)
        lowswap[-1], lowswap[-2] = lowswap[-2], lowswap[-1]
        phases.append(('swap-lowest', lowswap))
    phases.append(('reverse', list(reversed(seq0))))
    for pname, seq in phases:
        try:
            bdd.reorder({v: i for i, v in enumerate(seq)})
        except Exception as e:  # noqa
            rec('reorder-exception', 'reorder raised %r' % (e,), dict(task=t))
            break
        order = dict(bdd.vars)
        for fu in mine:
            if focus is not None and fu != focus:
                continue
            u = fn[fu]
            case = dict(task=t[:-1] + (fu,), u=U.fmt(fu), after=pname)
            try:
                rep.add('evaluations', 3)
                if traverse_function(u, U) != fu:
                    rec('after-reorder:traverse', 'traversal of a Function is wrong after '
                        'reordering', case)
                k = len(O.reachable(raw, [u.node]))
                if len(u) != k or u.dag_size != k:
                    rec('after-reorder:len', 'len(u)/dag_size is not the number of reachable '
                        'nodes after reordering', case, got=len(u), want=k)
                if set(raw.descendants([u.node])) != O.reachable(raw, [u.node]):
                    rec('after-reorder:descendants', 'descendants is wrong after reordering', case)
                if u.var is not None and u.level != order[u.var]:
                    rec('after-reorder:level', 'Function.level is wrong after reordering', case)
                if fu % 8 == 3:
                    views([fu], case)
                if fu not in (0, U.full):
                    rep.add('nontrivial', 3)
            except Violation as e:
                rec('after-reorder-broken:' + e.what, e.what, case, **e.detail)
            except Exception as e:  # noqa
                rec('after-reorder-exception:' + type(e).__name__, 'raised %r' % (e,), case)
    # roots=None: all stored nodes
    if si == 0 and focus is None:
        try:
            text = _bdd._to_dot(None, raw).to_dot()
            _, nodeset = eval_dot(text, U, order)
            rep.add('evaluations')
            if nodeset != set(raw._succ):
                rec('dot-all', 'DOT with roots=None does not show all stored nodes', dict(task=t))
            if len(bdd) != len(raw._succ) or len(raw) != len(O.reachable(raw, list(raw._succ))):
                rec('len-bdd', 'len(bdd) is not the number of stored nodes', dict(task=t))
        except Violation as e:
            rec('broken-all:' + e.what, e.what, dict(task=t))
        rep.sample(dict(order=sweep.order_str(order), u=U.fmt(fs[len(fs) // 3]),
                        views='low/high/negated, succ, descendants, len, dag_size, to_nx, '
                              'DOT (dump and _to_dot)'))
    try:
        os.remove(fname)
    except OSError:
        pass
    return rep


def dispatch(t):
    return task(t)


def plan(tier):
    ts = []
    if tier == 'quick':
        for oi in range(6):
            ts.append(('t', 3, oi, 16 if oi in (0, 3) else 0, 0, 1, None))
        for si in range(16):
            ts.append(('t', 4, 7, 0, si, 16, None))
        for k, oi in enumerate((1, 2, 5)):
            ts.append(('t', 3, '%d:%s' % (oi, ('K1', 'K2', 'rev')[k]), 0, 0, 1, None))
    else:
        for oi in range(6):
            for hist in ('K1', 'K2', 'rev'):
                ts.append(('t', 3, '%d:%s' % (oi, hist), 0, 0, 1, None))
        for oi in range(6):
            for si in range(4):
                ts.append(('t', 3, oi, 1 if oi in (0, 4) else 8, si, 4, None))
        for oi in range(24):
            for si in range(8):
                ts.append(('t', 4, oi, 0, si, 8, None))
    return ts


replay = sweep.replay_by_task(dispatch)


def main(tier, t0):
    return sweep.run_driver(
        PROP, tier, t0, plan(tier), dispatch,
        rule=('every function of n named variables (n=3 all orders, n=4 one order quick / all '
              'orders thorough), regular and complemented roots, root sets of size 1 and 2 '
              '(second root over every k-th function for stated orders); views: Function '
              'var/low/high/negated traversal, succ traversal (bdd and autoref), descendants, '
              'len(u), dag_size, len(bdd), to_nx (evaluated), DOT via dump and via _to_dot '
              '(parsed and evaluated, incl. levels); non-trivial = non-constant root; distinct by '
              'construction'),
        assumptions=['a 60-line reader of the DOT subset written by dd, per the legend in doc.md '
                     '(solid = then, dashed = else, taillabel -1 = complement, ref layer = roots)'],
        replay_fn=replay)
