"""C16 — a DDDMP file loads to the functions it describes.

The generator is independent of dd: from root functions and an order it builds the
reduced diagram with complemented else edges itself and prints a text-mode DDDMP
file in CUDD's line format, for EVERY node numbering that keeps the terminal at id 1
and children before parents, and for every header / varinfo mode the parser supports.
"""
import itertools
import os

from .. import env, run, sweep
from .. import oracle as O
from ..oracle import Violation
from ..ref import Universe, names_for

import dd.dddmp as _dddmp

PROP = 'C16'


class Diagram:
    """Reduced ordered diagram with complemented ELSE edges, built from masks (no dd code)."""

    def __init__(self, U, level_names):
        self.U = U
        self.L = list(level_names)        # names by level (support and extra variables)
        self.nodes = {}                   # key (name, then, else_signed) -> node id (creation)
        self.info = []                    # per internal node: (name, then_ref, else_ref) refs signed
        self.memo = {}

    def ref(self, f):
        """Signed reference: +-(k+2) for internal node k, +-1 for the terminal (1 = TRUE)."""
        U = self.U
        if f == U.full:
            return 1
        if f == 0:
            return -1
        if f in self.memo:
            return self.memo[f]
        for name in self.L:
            if name not in U.idx:
                continue
            f0, f1 = U.cof(f, name, 0), U.cof(f, name, 1)
            if f0 != f1:
                hi = self.ref(f1)
                lo = self.ref(f0)
                neg = hi < 0
                if neg:
                    hi, lo = -hi, -lo
                key = (name, hi, lo)
                if key not in self.nodes:
                    self.nodes[key] = len(self.info)
                    self.info.append(key)
                r = self.nodes[key] + 2
                r = -r if neg else r
                self.memo[f] = r
                return r
        raise AssertionError

    def mask_of(self, r):
        """Mask of a signed reference, by direct evaluation of the node list."""
        U = self.U
        if abs(r) == 1:
            m = U.full
        else:
            name, hi, lo = self.info[abs(r) - 2]
            x = U.var(name)
            m = (x & self.mask_of(hi)) | ((U.full ^ x) & self.mask_of(lo))
        return (U.full ^ m) if r < 0 else m


def linear_extensions(n, deps, cap_last=None):
    """All orders of 0..n-1 in which every node comes after its dependencies."""
    out = []
    order = []
    used = [False] * n

    def rec():
        if len(order) == n:
            out.append(list(order))
            return
        for k in range(n):
            if not used[k] and all(used[d] for d in deps[k]):
                used[k] = True
                order.append(k)
                rec()
                order.pop()
                used[k] = False
    rec()
    return out


MODES = [
    # (label, varinfo, suppvarnames?, orderedvarnames?, extras allowed?)
    ('v0 supp+ordered', 0, True, True, True),
    ('v1 supp+ordered', 1, True, True, True),
    ('v0 supp+permids gaps', 0, True, False, True),
    ('v1 supp+permids gaps', 1, True, False, True),
    ('v0 ordered only', 0, False, True, True),
    ('v1 ordered only', 1, False, True, True),
    ('v0 nameless', 0, False, False, False),
    ('v1 nameless', 1, False, False, False),
    ('v3 ordered', 3, True, True, True),
    ('v3 ordered only', 3, False, True, True),
]


def write_file(path, D, roots, numbering, mode, support, ids):
    """numbering: list position -> internal node index; file id of internal node k = pos+2."""
    label, varinfo, with_supp, with_ordered, _ = mode
    L = D.L
    fid = {k: pos + 2 for pos, k in enumerate(numbering)}

    def fref(r):
        if abs(r) == 1:
            return 1 if r > 0 else -1
        v = fid[abs(r) - 2]
        return v if r > 0 else -v
    sup_sorted = sorted(support, key=lambda v: ids[v])
    permid = {v: L.index(v) for v in L}
    lines = ['.ver DDDMP-2.0', '.mode A', '.varinfo %d' % varinfo,
             '.nnodes %d' % (len(D.info) + 1), '.nvars %d' % len(L),
             '.nsuppvars %d' % len(sup_sorted)]
    if with_supp:
        lines.append('.suppvarnames ' + ' '.join(sup_sorted))
    if with_ordered:
        lines.append('.orderedvarnames ' + ' '.join(L))
    lines.append('.ids ' + ' '.join(str(ids[v]) for v in sup_sorted))
    lines.append('.permids ' + ' '.join(str(permid[v]) for v in sup_sorted))
    lines.append('.nroots %d' % len(roots))
    lines.append('.rootids ' + ' '.join(str(fref(r)) for r in roots))
    lines.append('.nodes')
    lines.append('1 T 1 0 0')
    for pos, k in enumerate(numbering):
        name, hi, lo = D.info[k]
        if varinfo == 0:
            info = str(ids[name])
        elif varinfo == 1:
            info = str(permid[name])
        else:
            info = name
        lines.append('%d %s %d %d %d' % (pos + 2, info, sup_sorted.index(name),
                                         fref(hi), fref(lo)))
    lines.append('.end')
    with open(path, 'w') as f:
        f.write('\n'.join(lines) + '\n')
    return [fref(r) for r in roots]


def judge(bdd, U, D, roots, raw_root_ids, nameless, L):
    """Returns None (ok), ('known', text) or ('violation', sig, text)."""
    if nameless:
        # variables are known by position only: rename level i -> L[i]
        names_by_level = {}
        for v, lvl in bdd.vars.items():
            names_by_level[lvl] = v
        if sorted(names_by_level) != list(range(len(L))):
            return ('violation', 'nameless-levels', 'nameless file: levels are not 0..n-1')

        class _View:
            pass
        view = _View()
        view._succ = bdd._succ
        view.var_at_level = lambda i: L[i]
        den = O.Den(view, U)
    else:
        den = O.Den(bdd, U)
        for v in D.L:
            if v not in bdd.vars:
                return ('violation', 'missing-variable', 'a variable of the file is not declared')
        got_order = sorted((v for v in bdd.vars), key=lambda v: bdd.vars[v])
        if got_order != [v for v in D.L]:
            return ('violation', 'wrong-order', 'the variables are not in the order of the file: '
                    '%r' % (got_order,))
    want = sorted(D.mask_of(r) for r in roots)
    try:
        O.check(bdd, None, None if nameless else U, None if nameless else den,
                semantic=not nameless)
    except Violation as e:
        return ('violation', 'manager:' + e.what, e.what)
    got = []
    missing = False
    for r in bdd.roots:
        if abs(r) not in bdd._succ:
            missing = True
            continue
        got.append(den(r))
    if not missing and sorted(got) == want and len(bdd.roots) == len(set(want)):
        return None
    if not missing and sorted(set(got)) == sorted(set(want)):
        return None
    # what is wrong?
    stored = set()
    for u in bdd._succ:
        m = den(u)
        stored.add(m)
        stored.add(U.full ^ m)
    if set(bdd.roots) == set(raw_root_ids) and all(w in stored for w in want):
        return ('known', 'dddmp-raw-root-ids')
    if not all(w in stored for w in want):
        return ('violation', 'function-absent',
                'a root function of the file is not present in the loaded manager')
    return ('violation', 'wrong-roots', 'the roots of the loaded manager denote other functions')


def task(t):
    _, n, oi, rootsets, modes, extras, si, ns, focus = t
    rep = run.Report()
    rec = sweep.Rec(rep)
    env.scratch_dir()
    if isinstance(n, (tuple, list)):
        names = tuple(n)        # explicit (unusual) variable names
        n = len(names)
    else:
        names = names_for(n, env.SEED)
    # the extra (non-support) variables are part of the universe: a loader that labels a node
    # with one of them yields a function that can be evaluated and compared
    exnames = tuple(dict.fromkeys(e for ex in extras for _, e in ex))
    U = Universe(tuple(names) + exnames)
    order = sweep.orders(names)[oi]
    seq = sorted(order, key=order.get)
    fs = list(U.all_functions(tuple(names))) if n <= 3 else None
    # root sets
    if rootsets == 'singles':
        sets = [(f,) for f in fs if f not in (0, U.full)]
    elif isinstance(rootsets, str) and rootsets.startswith('singles/'):
        k = int(rootsets.split('/')[1])
        sets = [(f,) for f in fs[1 + oi::k] if f not in (0, U.full)]
    elif rootsets == 'pairs':
        sets = [(f, g) for f in fs[3::29] for g in fs[5::31] if f != g]
    elif rootsets == 'triples':
        sets = [(fs[a], fs[b], U.full ^ fs[a]) for a in range(7, len(fs), 41)
                for b in range(11, len(fs), 53)]
    else:
        # written-out masks are truth tables over `names` alone: repeat them over the extras
        small = 1 << n

        def lift(f):
            g = 0
            for k_ in range(1 << len(exnames)):
                g |= f << (k_ * small)
            return g
        sets = [tuple(lift(f) for f in x) for x in rootsets]
    mine = sweep.shard(sets, ns)[si]
    path = 'c16-%d.dddmp' % os.getpid()
    for rs in mine:
        if focus is not None and list(rs) != list(focus):
            continue
        for ex in extras:
            # level order with extra (non-support) variables interleaved
            L = list(seq)
            for pos, e in ex:
                L.insert(pos, e)
            D = Diagram(U, L)
            roots = [D.ref(f) for f in rs]
            support = sorted({D.info[k][0] for k in range(len(D.info))})
            if not D.info:
                continue
            ids = {v: 3 * i + 2 for i, v in enumerate(reversed(L))}
            deps = []
            for k, (name, hi, lo) in enumerate(D.info):
                deps.append([abs(c) - 2 for c in (hi, lo) if abs(c) != 1])
            if len(D.info) <= 7:
                numberings = linear_extensions(len(D.info), deps)
            else:
                base = list(range(len(D.info)))
                numberings = [base, list(reversed(base))] if False else [base]
            for mi in modes:
                mode = MODES[mi]
                nameless = not mode[2] and not mode[3]
                if nameless and ex:
                    continue
                if not mode[4] and ex:
                    continue
                if nameless:
                    # identity permids and every level used: support must be all of L
                    if sorted(support) != sorted(L):
                        continue
                if not mode[3] and not nameless:
                    # levels come from .suppvarnames + .permids: only support variables appear
                    pass
                for numbering in numberings:
                    case = dict(task=t[:-1] + (list(rs),), roots=[U.fmt(f) for f in rs],
                                mode=mode[0], levels=L, numbering=numbering)
                    try:
                        raw_ids = write_file(path, D, roots, numbering, mode, support, ids)
                        bdd = _dddmp.load(path)
                    except Exception as e:  # noqa
                        rec('load-exception:%s:%s' % (mode[0], type(e).__name__),
                            'load raised %r' % (e,), case)
                        continue
                    rep.add('evaluations')
                    rep.add('nontrivial')
                    Dj = D
                    if not mode[3] and not nameless:
                        # without .orderedvarnames only the support variables are declared
                        Dj = Diagram(U, [v for v in L if v in support])
                        Dj.info = D.info
                        Dj.L = [v for v in L if v in support]
                    res = judge(bdd, U, Dj, roots, raw_ids, nameless, L)
                    bdd.roots.clear()
                    if res is None:
                        rep.add('loaded_correctly')
                        continue
                    if res[0] == 'known':
                        rep.add('raw_root_ids_cases')
                        rec(res[1], 'dddmp.load stores the raw root ids of the file in bdd.roots '
                            'instead of the nodes they were rebuilt as', case)
                    else:
                        rec(res[1], res[2], case)
    try:
        os.remove(path)
    except OSError:
        pass
    if si == 0 and focus is None and mine:
        rep.sample(dict(roots=[U.fmt(f) for f in mine[len(mine) // 2]],
                        order=sweep.order_str(order), modes=[MODES[m][0] for m in modes],
                        numberings='all linear extensions'))
    return rep


BREAKS = ('varinfo2', 'varinfo4', 'rootnames', 'modeB', 'truncated', 'unknown-child',
          'nnodes', 'garbage-line')


def _break(text, how):
    lines = text.split('\n')
    if how == 'varinfo2':
        return '\n'.join('.varinfo 2' if l.startswith('.varinfo') else l for l in lines)
    if how == 'varinfo4':
        return '\n'.join('.varinfo 4' if l.startswith('.varinfo') else l for l in lines)
    if how == 'rootnames':
        i = next(k for k, l in enumerate(lines) if l.startswith('.rootids'))
        n = len(lines[i].split()) - 1
        return '\n'.join(lines[:i + 1] + ['.rootnames ' + ' '.join('r%d' % k for k in range(n))]
                         + lines[i + 1:])
    if how == 'modeB':
        return '\n'.join('.mode B' if l.startswith('.mode') else l for l in lines)
    if how == 'truncated':
        i = next(k for k, l in enumerate(lines) if l == '.end')
        return '\n'.join(lines[:i - 1]) + '\n'
    if how == 'unknown-child':
        i = next(k for k, l in enumerate(lines) if l == '.end')
        parts = lines[i - 1].split()
        parts[3] = '99'
        return '\n'.join(lines[:i - 1] + [' '.join(parts)] + lines[i:])
    if how == 'nnodes':
        return '\n'.join('.nnodes 99' if l.startswith('.nnodes') else l for l in lines)
    if how == 'garbage-line':
        i = next(k for k, l in enumerate(lines) if l == '.nodes')
        return '\n'.join(lines[:i + 2] + ['?? !!'] + lines[i + 2:])
    raise KeyError(how)


def task_seq(t):
    """Histories of loads in one process: every ordered pair (A, B) where A is a valid file or
    one the loader rejects (unsupported .varinfo 2/4, .rootnames, .mode B, truncated body,
    unknown child, wrong .nnodes, junk line) and B is a valid file of every header mode;
    B must load to the functions B describes whatever A was."""
    _, si, ns, focus = t
    rep = run.Report()
    rec = sweep.Rec(rep)
    env.scratch_dir()
    names = names_for(3, env.SEED)
    U = Universe(tuple(names) + ('e0',))
    X = [U.var(v) for v in names]
    setups = [
        (list(names), (X[0] & X[1] | X[2], U.full ^ (X[0] ^ X[2]))),
        ([names[2], names[0], names[1]], ((X[1] ^ X[2]) & X[0] | (U.full ^ X[0]) & X[2],)),
        ([names[1], 'e0', names[2], names[0]], (X[0] & (U.full ^ X[1]) | X[1] & X[2], X[2] ^ X[1])),
    ]
    files = []      # (label, text, judge-info or None)
    for k, (L, rs) in enumerate(setups):
        D = Diagram(U, L)
        roots = [D.ref(f) for f in rs]
        support = sorted({D.info[j][0] for j in range(len(D.info))})
        ids = {v: 3 * i + 2 for i, v in enumerate(reversed(L))}
        numbering = list(range(len(D.info)))
        for mi, mode in enumerate(MODES):
            nameless = not mode[2] and not mode[3]
            if nameless and sorted(support) != sorted(L):
                continue
            path = 'c16s-%d.dddmp' % os.getpid()
            raw_ids = write_file(path, D, roots, numbering, mode, support, ids)
            text = open(path).read()
            Dj = D
            if not mode[3] and not nameless:
                Dj = Diagram(U, [v for v in L if v in support])
                Dj.info = D.info
                Dj.L = [v for v in L if v in support]
            files.append(('valid:%d:%s' % (k, mode[0]), text,
                          (Dj, roots, raw_ids, nameless, L)))
            if mi in (0, 8):
                for how in BREAKS:
                    files.append(('broken:%d:%s:%s' % (k, mode[0], how), _break(text, how), None))
    valid = [f for f in files if f[2] is not None]
    pairs = [(a, b) for a in files for b in valid]
    mine = sweep.shard(pairs, ns)[si]
    path = 'c16s-%d.dddmp' % os.getpid()
    for (la, ta, ja), (lb, tb, jb) in mine:
        if focus is not None and sweep.norm([la, lb]) != sweep.norm(focus):
            continue
        case = dict(task=t[:-1] + ([la, lb],), first=la, second=lb)
        with open(path, 'w') as f:
            f.write(ta)
        try:
            first = _dddmp.load(path)
            first.roots.clear()
            del first
            if ja is None:
                rep.add('broken_file_accepted')
        except Exception:  # noqa
            if ja is not None:
                rec('seq-first-rejected', 'a valid file was rejected', dict(case))
                continue
            rep.add('rejections')
        with open(path, 'w') as f:
            f.write(tb)
        try:
            bdd = _dddmp.load(path)
        except Exception as e:  # noqa
            rec('seq-load-exception:' + type(e).__name__, 'a valid file is rejected after '
                'another load in the same process: %r' % (e,), case)
            continue
        rep.add('evaluations')
        rep.add('nontrivial')
        Dj, roots, raw_ids, nameless, L = jb
        res = judge(bdd, U, Dj, roots, raw_ids, nameless, L)
        bdd.roots.clear()
        if res is None:
            rep.add('loaded_correctly')
        elif res[0] == 'known':
            rep.add('raw_root_ids_cases')
            rec(res[1], 'dddmp.load stores the raw root ids of the file in bdd.roots '
                'instead of the nodes they were rebuilt as', case)
        else:
            rec('seq:' + res[1], res[2] + ' (after another load in the same process)', case)
    try:
        os.remove(path)
    except OSError:
        pass
    if si == 0 and focus is None:
        rep.sample(dict(kind='load histories', files=len(files), valid=len(valid),
                        pairs=len(pairs), breaks=list(BREAKS)))
    return rep


def dispatch(t):
    if t[0] == 'seq':
        return task_seq(t)
    return task(t)


EXTRAS = [(), ((0, 'e0'),), ((1, 'e1'), (3, 'e2')), ((2, 'e3'),), ((0, 'e4'), (1, 'e5'))]


# names the lexer must treat as plain names: header words without their dot, digits,
# underscores, primes, dots, at-signs (the NAME token of the DDDMP lexer)
TRICKY = ('add', 'mode', 'ids', 'dd', 'ver', 'nvars', 'permids', 'nroots', 'varinfo',
          'x_1', "y'", 'z.w', 'n@3', 'Tt', '_u', 'rootids', 'nodes', 'end', 'suppvarnames')


def plan(tier):
    ts = [('seq', si, 8, None) for si in range(8)]
    allm = tuple(range(len(MODES)))
    k = 0
    for a in range(0, len(TRICKY) - 2, 1 if tier == 'thorough' else 2):
        trio = (TRICKY[a], TRICKY[(a + 7) % len(TRICKY)], TRICKY[(a + 13) % len(TRICKY)])
        if len(set(trio)) < 3:
            continue
        k += 1
        named = tuple(i for i, m_ in enumerate(MODES) if m_[2] or m_[3])
        ts.append(('t', trio, k % 6, ((0b01101001,), (0b11100010, 0b00010111)), named,
                   tuple(EXTRAS[:2]), 0, 1, None))
    if tier == 'quick':
        for si in range(16):
            ts.append(('t', 3, 0, 'singles', allm, tuple(EXTRAS[:1]), si, 16, None))
        for oi in range(6):
            for si in range(4):
                ts.append(('t', 3, oi, 'singles/9', allm, tuple(EXTRAS[:3]), si, 4, None))
        for oi in (1, 4):
            for si in range(12):
                ts.append(('t', 3, oi, 'pairs', allm[oi % 2::2], tuple(EXTRAS[:2]), si, 12, None))
        for si in range(4):
            ts.append(('t', 3, 2, 'triples', allm[::3], tuple(EXTRAS[:1]), si, 4, None))
    else:
        for oi in range(6):
            for si in range(4):
                ts.append(('t', 3, oi, 'singles', allm, tuple(EXTRAS), si, 4, None))
            for si in range(2):
                ts.append(('t', 3, oi, 'pairs', allm, tuple(EXTRAS[:3]), si, 2, None))
            ts.append(('t', 3, oi, 'triples', allm, tuple(EXTRAS[:2]), 0, 1, None))
        # four variables: probe functions
        for oi in range(0, 24, 3):
            ts.append(('t', 4, oi, _probe4(), allm, tuple(EXTRAS[:2]), 0, 1, None))
    return ts


def _probe4():
    U = Universe(names_for(4, env.SEED))
    X = [U.var(n) for n in U.names]
    F = U.full
    fs = [X[0] & X[1] | X[2] & X[3], X[0] ^ X[1] ^ X[2] ^ X[3], (X[0] | X[3]) & (X[1] ^ X[2]),
          U.ite(X[0], X[1] & X[2], X[3]), (X[0] & X[2]) | (F ^ X[1]) & X[3]]
    sets = [(f,) for f in fs] + [(fs[0], fs[1]), (fs[2], F ^ fs[2], fs[4])]
    return tuple(sets)


replay = sweep.replay_by_task(dispatch)


def main(tier, t0):
    return sweep.run_driver(
        PROP, tier, t0, plan(tier), dispatch,
        rule=('files generated independently of dd from root sets (every non-constant function of '
              '3 variables as a single root; strided pairs and triples incl. complemented and '
              'duplicate functions; probe sets on 4 variables in thorough) x every variable order '
              'x extra non-support variables interleaved (gaps in the permutation ids) x 10 '
              'header/varinfo modes (0, 1, 3; with/without .suppvarnames/.orderedvarnames; '
              'nameless) x EVERY node numbering (all linear extensions of the DAG, terminal at id '
              '1); each (roots, levels, mode, numbering) is a distinct file; all non-trivial; '
              'plus histories of two loads in one process: every ordered pair (valid or rejected '
              'file, valid file)'),
        assumptions=['the generator builds the reduced diagram with complemented else edges itself '
                     '(mc/props/c16.py Diagram) and evaluates its own node list',
                     'line format as in tests/sample0.dddmp: id info index then else'],
        replay_fn=replay)
