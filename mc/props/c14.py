"""C14 — declaring and undeclaring variables keeps a valid order and all functions.

Explicit-state BFS over the real dd.bdd.BDD; the reference model of the order is a
plain Python list; accept/refuse decisions are compared with it on every transition.
"""
import itertools

from .. import env, run
from .. import oracle as O
from .. import state as S
from ..oracle import Violation
from ..ref import Universe
from ..explore import bfs, Machine
from ..machines import St

import dd.autoref as _autoref

PROP = 'C14'


class VarMachine(Machine):
    name = 'vars'

    def __init__(self, pool, max_handles=2, ops=('and', 'xor'), with_swap=True,
                 seeds=('empty', 'two'), via_autoref=True, subsets_cap=None):
        self.pool = tuple(pool)
        self.U = Universe(self.pool)
        self.max_handles = max_handles
        self.ops = ops
        self.with_swap = with_swap
        self._seeds = seeds
        self.via_autoref = via_autoref
        self.subsets_cap = subsets_cap

    def seed_labels(self):
        return list(self._seeds)

    def seed(self, label):
        if label == 'empty':
            m = S.new_bdd()
            return St(m, dict(order=[], held=[]))
        if label == 'two':
            a, b = self.pool[:2]
            m = S.new_bdd({a: 0, b: 1})
            u = m.apply('and', m.var(a), m.var(b))
            m.incref(u)
            return St(m, dict(order=[a, b], held=[[u, 1, self.U.var(a) & self.U.var(b)]]))
        if label == 'three-garbage':
            a, b, c = self.pool[:3]
            m = S.new_bdd({a: 0, b: 1, c: 2})
            u = m.apply('xor', m.var(a), m.var(c))
            m.incref(u)
            m.var(b)    # garbage at the middle level
            return St(m, dict(order=[a, b, c], held=[[u, 1, self.U.var(a) ^ self.U.var(c)]]))
        raise KeyError(label)

    def actions(self, st):
        order, held = st.h['order'], st.h['held']
        n = len(order)
        acts = []
        for x in self.pool:
            acts.append(('declare', x))
            if x in order:
                lv = order.index(x)
                acts.append(('add_var', x, lv))
                if n > 1:
                    acts.append(('add_var', x, (lv + 1) % n))
                acts.append(('add_var', x, n))
            else:
                acts.append(('add_var', x, None))
                acts.append(('add_var', x, n))
                if n:
                    acts.append(('add_var', x, 0))
                    if n > 1:
                        acts.append(('add_var', x, n - 1))
        if len(held) < self.max_handles:
            for x in order:
                acts.append(('var', x))
            for op in self.ops:
                for i in range(len(held)):
                    for j in range(len(held)):
                        if i < j or (i == j and op == 'and'):
                            acts.append(('apply', op, i, j))
        for i in range(len(held)):
            acts.append(('release', i))
        acts.append(('collect',))
        if self.with_swap:
            for l in range(n - 1):
                acts.append(('swap', l))
        subs = [c for k in range(1, n + 1) for c in itertools.combinations(order, k)]
        if self.subsets_cap is not None:
            subs = [c for c in subs if len(c) <= self.subsets_cap or len(c) == n]
        for c in subs:
            acts.append(('undeclare',) + c)
        acts.append(('undeclare',))
        acts.append(('undeclare', '_unknown'))
        if order:
            acts.append(('undeclare', order[0], '_unknown'))
        return acts

    def _mgr(self, st, a):
        """Declarations go through a transient dd.autoref wrapper for half of the names."""
        m = st.m
        if self.via_autoref and a[0] in ('declare', 'add_var') and (
                self.pool.index(a[1]) % 2 == 1):
            return S.autoref_around(m)
        return m

    def apply(self, st, a, check=True):
        m, U = st.m, self.U
        order, held = st.h['order'], st.h['held']
        kind = a[0]
        n = len(order)
        if kind in ('declare', 'add_var'):
            x = a[1]
            level = a[2] if kind == 'add_var' else None
            if x in order:
                accept = level is None or level == order.index(x)
                new_order = order
                want_ret = order.index(x)
            else:
                accept = level is None or level == n
                new_order = order + [x]
                want_ret = n
            mgr = self._mgr(st, a)
            try:
                if kind == 'declare':
                    ret = mgr.declare(x)
                    want_ret = None
                else:
                    ret = mgr.add_var(x, level) if level is not None else mgr.add_var(x)
            except Exception as e:  # noqa
                if accept and check:
                    raise Violation('a valid declaration was refused', action=list(a),
                                    error=repr(e)[:120])
                return
            if not accept:
                if check:
                    raise Violation('a conflicting declaration was accepted', action=list(a))
                return
            if check and ret != want_ret:
                raise Violation('add_var returned the wrong level', got=ret, want=want_ret)
            st.h['order'] = list(new_order)
        elif kind == 'var':
            r = m.var(a[1])
            if check and O.Den(m, U)(r) != U.var(a[1]):
                raise Violation('var denotes the wrong function')
            self._hold(st, r, U.var(a[1]))
        elif kind == 'apply':
            _, op, i, j = a
            r = m.apply(op, held[i][0], held[j][0])
            want = U.op(op, held[i][2], held[j][2])
            if check and O.Den(m, U)(r) != want:
                raise Violation('apply result denotes the wrong function')
            self._hold(st, r, want)
        elif kind == 'release':
            e = held[a[1]]
            m.decref(e[0])
            e[1] -= 1
            if e[1] == 0:
                del held[a[1]]
        elif kind == 'collect':
            m.collect_garbage()
        elif kind == 'swap':
            m.swap(a[1], a[1] + 1)
            o = st.h['order']
            o[a[1]], o[a[1] + 1] = o[a[1] + 1], o[a[1]]
        elif kind == 'undeclare':
            names = list(a[1:])
            full = {lv for (lv, _, _) in m._succ.values()}
            unknown = [x for x in names if x not in order]
            used = [x for x in names if x in order and order.index(x) in full]
            accept = not unknown and not used
            if names:
                removed = set(names)
            else:
                removed = {x for x in order if order.index(x) not in full}
            try:
                ret = m.undeclare_vars(*names)
            except Exception as e:  # noqa
                if accept and check:
                    raise Violation('undeclare_vars refused unused declared variables',
                                    action=list(a), error=repr(e)[:120])
                return
            if not accept:
                if check:
                    raise Violation('undeclare_vars accepted a used or unknown variable',
                                    action=list(a), used=used, unknown=unknown)
                return
            if check and ret is not None and set(ret) != removed:
                raise Violation('undeclare_vars reports the wrong set of removed variables',
                                got=sorted(ret), want=sorted(removed))
            st.h['order'] = [x for x in order if x not in removed]
        else:
            raise KeyError(a)

    def _hold(self, st, r, mask):
        st.m.incref(r)
        for e in st.h['held']:
            if e[0] == r:
                e[1] += 1
                return
        st.h['held'].append([r, 1, mask])

    def invariant(self, st):
        m, U = st.m, self.U
        order, held = st.h['order'], st.h['held']
        O.check_order(m)
        got = sorted(m.vars, key=m.vars.get)
        if got != order:
            raise Violation('the declared order differs from the list model',
                            got=got, want=order)
        ext = {}
        for r, c, _ in held:
            ext[abs(r)] = ext.get(abs(r), 0) + c
        den = O.Den(m, U)
        O.check(m, ext, U, den)
        for r, c, mask in held:
            if den(r) != mask:
                raise Violation('a held reference changed denotation (by name)', ref=r)

    def key(self, st):
        return S.key(st.m, (st.h['order'], sorted(st.h['held'])))

    def unexpected(self, exc, action):
        return 'exception:%s@%s' % (type(exc).__name__, action[0])


def machines(tier):
    if tier == 'quick':
        pl = [
            ('pool3', dict(pool=('x', 'y', 'z'), seeds=('empty', 'two', 'three-garbage')), 7),
            ('pool4', dict(pool=('x', 'y', 'z', 'w'), max_handles=2, ops=('xor',),
                           seeds=('empty', 'two', 'three-garbage'), subsets_cap=2), 5),
            ('pool4-decl', dict(pool=('x', 'y', 'z', 'w'), max_handles=1, ops=(), with_swap=False,
                                seeds=('empty', 'two')), 8),
        ]
    else:
        pl = [
            ('pool3', dict(pool=('x', 'y', 'z'), seeds=('empty', 'two', 'three-garbage')), 9),
            ('pool4', dict(pool=('x', 'y', 'z', 'w'), max_handles=2, ops=('xor',),
                           seeds=('empty', 'two', 'three-garbage')), 7),
            ('pool6', dict(pool=('x', 'y', 'z', 'w', 'v', 'u'), max_handles=1, ops=(),
                           with_swap=False, seeds=('empty', 'two'), subsets_cap=None), 6),
        ]
    out = []
    for label, kw, depth in pl:
        mm = VarMachine(**kw)
        mm.name = 'vars/' + label
        mm.kw = kw
        out.append((mm, depth))
    return out


def replay(case):
    for tier in ('thorough', 'quick'):
        for mm, _ in machines(tier):
            if mm.name == case['machine']:
                return mm.replay(case)
    return None


def main(tier, t0):
    rep = run.Report()
    total = dict(states=0, transitions=0, validated=0)
    bounds = {}
    for mach, depth in machines(tier):
        r = run.Report()
        res = bfs(mach, depth, r)
        run.close_pool()
        rep.merge(r)
        for k in total:
            total[k] += res[k]
        bounds[mach.name] = dict(pool=list(mach.pool), depth_completed=res['completed_depth'],
                                 states_per_layer=res['layers'])
    cov = dict(
        states=total['states'], transitions=total['transitions'],
        traces_validated_against_impl=total['validated'],
        exhaustive=not rep.caps, bounds=bounds,
        explanation=(
            'alphabet: declare(x), add_var(x), add_var(x, level) with level in {own, another '
            'used, next free, 0, bottom}, var, apply, release, collect_garbage, swap, '
            'undeclare_vars(*S) for every subset S of the declared names, the no-argument form '
            'and unknown names; list model of the order decides accept/refuse on every '
            'transition; in every state: four order views == list model, independent oracle '
            'with exact counts, every held reference keeps its function BY NAME over the whole '
            'pool; deepest layer replayed from the constructor'))
    return run.finish(PROP, 'model_checking', tier, rep, t0, cov,
                      assumptions=['"used" = the level holds stored nodes (the documented meaning '
                                   'in the docstring of undeclare_vars); add_var with a level '
                                   'beyond the next free one is not generated'],
                      replay_fn=replay)
