"""C14 — declaring and undeclaring variables keeps a valid order and all functions.

Explicit-state BFS over the real dd.bdd.BDD; the reference model of the order is a
plain Python list; accept/refuse decisions are compared with it on every transition.
"""
import itertools

from .. import env, run, sweep
from .. import oracle as O
from .. import state as S
from ..oracle import Violation
from ..ref import Universe
from ..explore import bfs, Machine
from ..machines import St

import dd.autoref as _autoref
import dd.bdd as _bdd
import dd._copy as _copy

PROP = 'C14'


class VarMachine(Machine):
    name = 'vars'

    def __init__(self, pool, max_handles=2, ops=('and', 'xor'), with_swap=True,
                 seeds=('empty', 'two'), via_autoref=True, subsets_cap=None):
        self.pool = tuple(pool)
        self.U = Universe(self.pool)
        self.max_handles = max_handles
        self.ops = ops
        self.with_swap = with_swap
        self._seeds = seeds
        self.via_autoref = via_autoref
        self.subsets_cap = subsets_cap

    def seed_labels(self):
        return list(self._seeds)

    def seed(self, label):
        if label == 'empty':
            m = S.new_bdd()
            return St(m, dict(order=[], held=[]))
        if label == 'two':
            a, b = self.pool[:2]
            m = S.new_bdd({a: 0, b: 1})
            u = m.apply('and', m.var(a), m.var(b))
            m.incref(u)
            return St(m, dict(order=[a, b], held=[[u, 1, self.U.var(a) & self.U.var(b)]]))
        if label == 'three-garbage':
            a, b, c = self.pool[:3]
            m = S.new_bdd({a: 0, b: 1, c: 2})
            u = m.apply('xor', m.var(a), m.var(c))
            m.incref(u)
            m.var(b)    # garbage at the middle level
            return St(m, dict(order=[a, b, c], held=[[u, 1, self.U.var(a) ^ self.U.var(c)]]))
        raise KeyError(label)

    def actions(self, st):
        order, held = st.h['order'], st.h['held']
        n = len(order)
        acts = []
        for x in self.pool:
            acts.append(('declare', x))
            if x in order:
                lv = order.index(x)
                acts.append(('add_var', x, lv))
                if n > 1:
                    acts.append(('add_var', x, (lv + 1) % n))
                acts.append(('add_var', x, n))
            else:
                acts.append(('add_var', x, None))
                acts.append(('add_var', x, n))
                if n:
                    acts.append(('add_var', x, 0))
                    if n > 1:
                        acts.append(('add_var', x, n - 1))
        if len(held) < self.max_handles:
            for x in order:
                acts.append(('var', x))
            for op in self.ops:
                for i in range(len(held)):
                    for j in range(len(held)):
                        if i < j or (i == j and op == 'and'):
                            acts.append(('apply', op, i, j))
        for i in range(len(held)):
            acts.append(('release', i))
        acts.append(('collect',))
        if self.with_swap:
            for l in range(n - 1):
                acts.append(('swap', l))
        subs = [c for k in range(1, n + 1) for c in itertools.combinations(order, k)]
        if self.subsets_cap is not None:
            subs = [c for c in subs if len(c) <= self.subsets_cap or len(c) == n]
        for c in subs:
            acts.append(('undeclare',) + c)
        acts.append(('undeclare',))
        acts.append(('undeclare', '_unknown'))
        if order:
            acts.append(('undeclare', order[0], '_unknown'))
        return acts

    def _mgr(self, st, a):
        """Declarations go through a transient dd.autoref wrapper for half of the names."""
        m = st.m
        if self.via_autoref and a[0] in ('declare', 'add_var') and (
                self.pool.index(a[1]) % 2 == 1):
            return S.autoref_around(m)
        return m

    def apply(self, st, a, check=True):
        m, U = st.m, self.U
        order, held = st.h['order'], st.h['held']
        kind = a[0]
        n = len(order)
        if kind in ('declare', 'add_var'):
            x = a[1]
            level = a[2] if kind == 'add_var' else None
            if x in order:
                accept = level is None or level == order.index(x)
                new_order = order
                want_ret = order.index(x)
            else:
                accept = level is None or level == n
                new_order = order + [x]
                want_ret = n
            mgr = self._mgr(st, a)
            try:
                if kind == 'declare':
                    ret = mgr.declare(x)
                    want_ret = None
                else:
                    ret = mgr.add_var(x, level) if level is not None else mgr.add_var(x)
            except Exception as e:  # noqa
                if accept and check:
                    raise Violation('a valid declaration was refused', action=list(a),
                                    error=repr(e)[:120])
                return
            if not accept:
                if check:
                    raise Violation('a conflicting declaration was accepted', action=list(a))
                return
            if check and ret != want_ret:
                raise Violation('add_var returned the wrong level', got=ret, want=want_ret)
            st.h['order'] = list(new_order)
        elif kind == 'var':
            r = m.var(a[1])
            if check and O.Den(m, U)(r) != U.var(a[1]):
                raise Violation('var denotes the wrong function')
            self._hold(st, r, U.var(a[1]))
        elif kind == 'apply':
            _, op, i, j = a
            r = m.apply(op, held[i][0], held[j][0])
            want = U.op(op, held[i][2], held[j][2])
            if check and O.Den(m, U)(r) != want:
                raise Violation('apply result denotes the wrong function')
            self._hold(st, r, want)
        elif kind == 'release':
            e = held[a[1]]
            m.decref(e[0])
            e[1] -= 1
            if e[1] == 0:
                del held[a[1]]
        elif kind == 'collect':
            m.collect_garbage()
        elif kind == 'swap':
            m.swap(a[1], a[1] + 1)
            o = st.h['order']
            o[a[1]], o[a[1] + 1] = o[a[1] + 1], o[a[1]]
        elif kind == 'undeclare':
            names = list(a[1:])
            full = {lv for (lv, _, _) in m._succ.values()}
            unknown = [x for x in names if x not in order]
            used = [x for x in names if x in order and order.index(x) in full]
            accept = not unknown and not used
            if names:
                removed = set(names)
            else:
                removed = {x for x in order if order.index(x) not in full}
            try:
                ret = m.undeclare_vars(*names)
            except Exception as e:  # noqa
                if accept and check:
                    raise Violation('undeclare_vars refused unused declared variables',
                                    action=list(a), error=repr(e)[:120])
                return
            if not accept:
                if check:
                    raise Violation('undeclare_vars accepted a used or unknown variable',
                                    action=list(a), used=used, unknown=unknown)
                return
            if check and ret is not None and set(ret) != removed:
                raise Violation('undeclare_vars reports the wrong set of removed variables',
                                got=sorted(ret), want=sorted(removed))
            st.h['order'] = [x for x in order if x not in removed]
        else:
            raise KeyError(a)

    def _hold(self, st, r, mask):
        st.m.incref(r)
        for e in st.h['held']:
            if e[0] == r:
                e[1] += 1
                return
        st.h['held'].append([r, 1, mask])

    def invariant(self, st):
        m, U = st.m, self.U
        order, held = st.h['order'], st.h['held']
        O.check_order(m)
        got = sorted(m.vars, key=m.vars.get)
        if got != order:
            raise Violation('the declared order differs from the list model',
                            got=got, want=order)
        ext = {}
        for r, c, _ in held:
            ext[abs(r)] = ext.get(abs(r), 0) + c
        den = O.Den(m, U)
        O.check(m, ext, U, den)
        for r, c, mask in held:
            if den(r) != mask:
                raise Violation('a held reference changed denotation (by name)', ref=r)
        self.step_invariant(st)

    def step_invariant(self, st):
        for r, c, mask in st.h['held']:
            O.observe_queries(st.m, self.U, r, mask)

    def key(self, st):
        return S.key(st.m, (st.h['order'], sorted(st.h['held'])))

    def unexpected(self, exc, action):
        return 'exception:%s@%s' % (type(exc).__name__, action[0])


def machines(tier):
    if tier == 'quick':
        pl = [
            ('pool3', dict(pool=('x', 'y', 'z'), seeds=('empty', 'two', 'three-garbage')), 7),
            ('pool4', dict(pool=('x', 'y', 'z', 'w'), max_handles=2, ops=('xor',),
                           seeds=('empty', 'two', 'three-garbage'), subsets_cap=2), 5),
            ('pool4-decl', dict(pool=('x', 'y', 'z', 'w'), max_handles=1, ops=(), with_swap=False,
                                seeds=('empty', 'two')), 8),
        ]
    else:
        pl = [
            ('pool3', dict(pool=('x', 'y', 'z'), seeds=('empty', 'two', 'three-garbage')), 9),
            ('pool4', dict(pool=('x', 'y', 'z', 'w'), max_handles=2, ops=('xor',),
                           seeds=('empty', 'two', 'three-garbage')), 7),
            ('pool6', dict(pool=('x', 'y', 'z', 'w', 'v', 'u'), max_handles=1, ops=(),
                           with_swap=False, seeds=('empty', 'two'), subsets_cap=None), 6),
        ]
    out = []
    for label, kw, depth in pl:
        mm = VarMachine(**kw)
        mm.name = 'vars/' + label
        mm.kw = kw
        out.append((mm, depth))
    return out


LEVEL_ROUTES = ('ctor', 'add_var', 'autoref-ctor', 'autoref-add_var', 'copy_vars', 'prefix')


def task_levels(t):
    """Orders handed over with EXPLICIT levels in every insertion order (the constructor with a
    dict, add_var(name, level) one by one, dd._copy.copy_vars from a reordered manager, new
    variables below a used prefix): every assignment of levels x every insertion order of k
    names.  Between the calls the levels may have gaps; at the end they must form 0..n-1."""
    _, k, route, focus = t
    rep = run.Report()
    rec = sweep.Rec(rep)
    pool = ('x', 'y', 'z', 'w')[:k]
    pre = ('p', 'q')
    U = Universe(pre + pool)
    for lv in itertools.permutations(range(k)):
        for ins in itertools.permutations(range(k)):
            if focus is not None and sweep.norm([lv, ins]) != sweep.norm(focus):
                continue
            case = dict(task=t[:-1] + ([list(lv), list(ins)],), route=route,
                        levels=dict(zip(pool, lv)), insertion=[pool[i] for i in ins])
            try:
                off = 0
                ext = {}
                held = []
                if route == 'ctor':
                    m = S.new_bdd({pool[i]: lv[i] for i in ins})
                elif route == 'autoref-ctor':
                    am = _autoref.BDD({pool[i]: lv[i] for i in ins})
                    m = am._bdd
                elif route == 'add_var':
                    m = S.new_bdd()
                    for i in ins:
                        if m.add_var(pool[i], lv[i]) != lv[i]:
                            raise Violation('add_var returned another level than the one given')
                        _partial_views(m)
                elif route == 'autoref-add_var':
                    am = S.new_autoref()
                    m = am._bdd
                    for i in ins:
                        if am.add_var(pool[i], lv[i]) != lv[i]:
                            raise Violation('add_var returned another level than the one given')
                elif route == 'copy_vars':
                    # source declared in insertion order `ins`, then sorted so that name i sits
                    # at level lv[i]: its `vars` dict iterates in declaration order
                    src = S.new_bdd({pool[i]: j for j, i in enumerate(ins)})
                    _bdd.reorder(src, {pool[i]: lv[i] for i in range(k)})
                    m = S.new_bdd()
                    _copy.copy_vars(src, m)
                else:
                    off = 2
                    m = S.new_bdd({'p': 0, 'q': 1})
                    r = m.apply('xor', m.var('p'), m.var('q'))
                    m.incref(r)
                    held.append((r, U.var('p') ^ U.var('q')))
                    ext[abs(r)] = 1
                    for i in ins:
                        m.add_var(pool[i], lv[i] + off)
                        _partial_views(m)
                want = {pool[i]: lv[i] + off for i in range(k)}
                if off:
                    want.update(p=0, q=1)
                rep.add('evaluations')
                if k > 1 and list(ins) != sorted(ins, key=lambda i: lv[i]):
                    rep.add('nontrivial')
                if dict(m.vars) != want:
                    raise Violation('the declared levels are not the requested ones',
                                    got=dict(m.vars), want=want)
                O.check_order(m)
                O.check(m, ext, U)
                # the order is usable: variables, connectives, substitution, counting
                b = sweep.Builder(m, U)
                den = O.Den(m, U)
                names = sorted(want, key=want.get)
                acc_m, acc = 0, None
                for x in names:
                    vx = m.var(x)
                    if den(vx) != U.var(x):
                        raise Violation('var(x) denotes another function after the declarations')
                    acc = vx if acc is None else m.apply('xor', acc, vx)
                    acc_m ^= U.var(x)
                if den(acc) != acc_m or acc != b(acc_m):
                    raise Violation('a function built on the declared order is wrong or not '
                                    'canonical')
                conj = b.verified(U.var(names[0]) & U.var(names[-1]))
                if m.apply('and', m.var(names[0]), m.var(names[-1])) != conj:
                    raise Violation('apply and node-by-node construction disagree on the '
                                    'declared order')
                for r, f in held:
                    if den(r) != f:
                        raise Violation('a held reference changed when variables were declared')
                O.check(m, ext, U)
                # removing: nothing but the prefix function is referenced
                m.collect_garbage()
                m.undeclare_vars()
                left = {v: l for v, l in want.items() if v in ('p', 'q')} if off else {}
                if dict(m.vars) != left:
                    raise Violation('undeclare_vars() did not remove exactly the unused '
                                    'variables', got=dict(m.vars), want=left)
                O.check_order(m)
                O.check(m, ext, U)
                if off:
                    m.decref(held[0][0])
                am = None
            except Violation as e:
                rec('levels:' + route + ':' + e.what, e.what, case, **e.detail)
            except Exception as e:  # noqa
                rec('levels-exception:%s:%s' % (route, type(e).__name__), 'raised %r' % (e,), case)
    if focus is None:
        rep.sample(dict(kind='explicit levels', route=route, names=k,
                        cases='every assignment of levels x every insertion order'))
    return rep


def _partial_views(m):
    """While levels may still have gaps: the views agree on the declared names."""
    for v, l in m.vars.items():
        if m.level_of_var(v) != l or m.var_at_level(l) != v:
            raise Violation('level_of_var / var_at_level disagree with vars while declaring')
    if dict(m.var_levels) != dict(m.vars):
        raise Violation('var_levels differs from vars while declaring')


def levels_plan(tier):
    ks = (1, 2, 3) if tier == 'quick' else (1, 2, 3, 4)
    ts = [('levels', k, route, None) for k in ks for route in LEVEL_ROUTES]
    if tier == 'quick':
        ts += [('levels', 4, route, None) for route in ('ctor', 'add_var', 'copy_vars')]
    return ts


def replay(case):
    if 'task' in case:
        return sweep.replay_by_task(task_levels)(case)
    for tier in ('thorough', 'quick'):
        for mm, _ in machines(tier):
            if mm.name == case['machine']:
                return mm.replay(case)
    return None


def main(tier, t0):
    rep = run.Report()
    run.pmerge(task_levels, levels_plan(tier), rep)
    run.close_pool()
    total = dict(states=0, transitions=0, validated=0)
    bounds = {}
    for mach, depth in machines(tier):
        r = run.Report()
        res = bfs(mach, depth, r)
        run.close_pool()
        rep.merge(r)
        for k in total:
            total[k] += res[k]
        bounds[mach.name] = dict(pool=list(mach.pool), depth_completed=res['completed_depth'],
                                 states_per_layer=res['layers'])
    cov = dict(
        states=total['states'], transitions=total['transitions'],
        traces_validated_against_impl=total['validated'],
        evaluations=rep.counts.get('evaluations', 0),
        distinct_nontrivial=rep.counts.get('nontrivial', 0),
        explicit_levels=('orders handed over with explicit levels: every assignment of levels x '
                         'every insertion order of up to 4 names through the constructor, '
                         'add_var(name, level), dd.autoref, dd._copy.copy_vars from a reordered '
                         'manager, and below a used two-variable prefix; non-trivial = the '
                         'insertion order is not the level order'),
        exhaustive=not rep.caps, bounds=bounds,
        explanation=(
            'alphabet: declare(x), add_var(x), add_var(x, level) with level in {own, another '
            'used, next free, 0, bottom}, var, apply, release, collect_garbage, swap, '
            'undeclare_vars(*S) for every subset S of the declared names, the no-argument form '
            'and unknown names; list model of the order decides accept/refuse on every '
            'transition; in every state: four order views == list model, independent oracle '
            'with exact counts, every held reference keeps its function BY NAME over the whole '
            'pool; deepest layer replayed from the constructor'))
    return run.finish(PROP, 'model_checking', tier, rep, t0, cov,
                      assumptions=['"used" = the level holds stored nodes (the documented meaning '
                                   'in the docstring of undeclare_vars); in the BFS add_var with a '
                                   'level beyond the next free one is not generated (the explicit-'
                                   'levels sweep covers those calls)'],
                      replay_fn=replay)
