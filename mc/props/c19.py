"""C19 — C back ends: same operator meanings and a reference held for every handle.

CUDD, Sylvan and BuDDy are not installed, so the Cython wrappers cannot be built,
imported or executed here. The check explores MODELS EXTRACTED FROM THE SOURCE on every
run (mc/pyxmodel.py):
  * operator model: the body of each wrapper's `apply` is lowered to a small IR and
    executed for every accepted symbol x arity x operand valuation over the 16 truth
    tables of two variables, with a table of primitive meanings for the C entry points;
    the result is compared with the RUNNING dd.bdd.BDD.apply on the same operands;
  * binding to code: the same interpreter executes the IR lowered (by Python's ast) from
    the executable siblings dd.bdd.BDD.apply and dd.mdd.MDD.apply and every such trace is
    replayed against the real method; the Cython front-end must account, string for
    string, for every operator literal a text scan finds in the source of `apply`;
  * reference model: all paths through every function that touches the reference
    primitives, tracking per scalar local "references taken - released".
"""
import operator
import os
import re

from .. import env, run, sweep
from .. import oracle as O
from .. import state as S
from ..oracle import Violation
from ..ref import Universe
from .. import pyxmodel as P

import dd._abc
import dd._utils
import dd.mdd as _mdd

PROP = 'C19'
WRAPPERS = ['cudd.pyx', 'cudd_zdd.pyx', 'sylvan.pyx', 'buddy.pyx']
QUANT = {'\\A', 'forall', '\\E', 'exists'}

# exits that are by design not balanced: (function name) -> (variable suffix, expected balance)
TRANSFER = {
    '_incref': +1, 'incref': +1, '_decref': -1, 'decref': -1,
    'init': +1, '__cinit__': +1, '__dealloc__': -1, '_test_call_dealloc': -1,
}
DEFENSIVE_RAISES = {'AssertionError'}


def _literal_sets(text):
    """Module-level `X: ... = _ty.Literal[...]` and `Y = set(_ty.get_args(X))` definitions."""
    out = {}
    for m in re.finditer(r'^(\w+)\s*:\s*[\w\.]+\s*=\s*_ty\.Literal\[(.*?)\]', text, re.S | re.M):
        lits = re.findall(r"""r?'(?:[^'\\]|\\.)*'""", m.group(2))
        out[m.group(1)] = {eval(l) for l in lits}
    for m in re.finditer(r'^(\w+)\s*(?::\s*[\w\.]+)?\s*=\s*set\(\s*_ty\.get_args\(\s*(\w+)\s*\)\s*\)',
                         text, re.M):
        if m.group(2) in out:
            out[m.group(1)] = set(out[m.group(2)])
    return out


def _real_manager(U):
    m = S.new_bdd({n: i for i, n in enumerate(U.names)})
    refs, b = sweep.build_all(m, U, hold=True)
    return m, refs


def _expected(m, refs, U, den, op, fu, fv, fw):
    """What the running dd.bdd.BDD.apply does: mask, or 'rejected'."""
    args = [refs[fu]]
    if fv is not None:
        args.append(refs[fv])
    if fw is not None:
        args.append(refs[fw])
    try:
        r = m.apply(op, *args)
    except Exception:  # noqa
        return 'rejected'
    return den(r)


def _valuations(U, op, arity, stride3=1):
    fs = list(range(1 << U.N))
    cubes = [U.full, U.var(U.names[0]), U.var(U.names[1]), U.var(U.names[0]) & U.var(U.names[1])]
    firsts = cubes if op in QUANT else fs
    for fu in firsts:
        for fv in (fs if arity >= 2 else [None]):
            for fw in (fs[::stride3] if arity >= 3 else [None]):
                yield fu, fv, fw


def operator_model(rep, rec, path, U, m, refs, den):
    name = os.path.basename(path)
    text = open(path, encoding='utf8').read()
    try:
        ir, src, cls = P.cy_apply_ir(path)
    except Exception as e:  # noqa
        rep.note('%s: apply could not be extracted (%r): operator model skipped' % (name, e))
        rep.add('uninterpreted')
        return
    voc_names = _literal_sets(text)
    model = P.Model(U)
    interp = P.Interp(model, dd._utils.assert_operator_arity, voc_names)
    # cross-check of the Cython front-end: every operator literal of the source is in the IR
    scan = P.source_op_strings(src)
    got = P.ir_strings(ir)
    if scan != got:
        rep.note('%s: literals found by text scan and by the AST differ: %r' % (
            name, sorted(scan ^ got)))
        rep.add('frontend_mismatch')
    symbols = sorted(set(dd._abc.BDD_OPERATOR_SYMBOLS) | got)
    accepted = set()
    for op in symbols:
        for arity in (1, 2, 3):
            status = None
            mismatches = []
            all_swapped = True      # every result equals "quantify u over the variables of v"
            for fu, fv, fw in _valuations(U, op, arity):
                case = dict(wrapper=name, op=op, arity=arity, u=U.fmt(fu),
                            v=None if fv is None else U.fmt(fv),
                            w=None if fw is None else U.fmt(fw))
                try:
                    got_mask = interp.run(ir, op, fu, fv, fw)
                except P.Rejected:
                    status = 'rejected'
                    break
                except P.Uninterpreted as e:
                    status = 'uninterpreted'
                    rep.mark('uninterpreted_constructs', '%s apply(%r): %s' % (name, op, e))
                    break
                rep.add('evaluations')
                rep.add('model_transitions')
                want = _expected(m, refs, U, den, op, fu, fv, fw)
                status = 'accepted'
                if want == 'rejected':
                    rec('accepts-more:%s:%s' % (name, _group(op)),
                        '%s accepts symbol %r with %d operands, dd.bdd rejects it' % (
                            name, op, arity), case)
                    status = 'accepted-mismatch'
                    break
                if op in QUANT and fv is not None:
                    sw = U.quantify(fu, sorted(U.support(fv)), op in ('\\A', 'forall'))
                    if got_mask != sw:
                        all_swapped = False
                else:
                    all_swapped = False
                if got_mask != want:
                    mismatches.append(('%s: apply(%r) computes %s where dd.bdd computes %s' % (
                        name, op, U.fmt(got_mask), U.fmt(want)), case))
                elif fu not in (0, U.full) and (fv is None or fv not in (0, U.full)):
                    rep.add('nontrivial')
            if mismatches:
                sig = 'operator:%s:%s' % (name, _group(op))
                if all_swapped:
                    # precise class: the two operands are passed in each other's place
                    sig += ':operand-roles-swapped'
                for what, case in mismatches[:2]:
                    rec(sig, what, case)
            if status == 'accepted':
                accepted.add(op)
                rep.mark('model_states', (name, op, arity))
            if status == 'uninterpreted':
                rep.add('uninterpreted')
    rep.sections.setdefault('accepted_symbols', {})[name] = sorted(accepted)
    lib = set(dd._abc.BDD_OPERATOR_SYMBOLS)
    missing = sorted(lib - accepted)
    if missing:
        rep.sections.setdefault('symbols_not_accepted_by_wrapper', {})[name] = missing


def _group(op):
    for g, syms in (('not', ('~', 'not', '!')), ('and', ('and', '/\\', '&', '&&')),
                    ('or', ('or', '\\/', '|', '||')), ('xor', ('#', 'xor', '^')),
                    ('implies', ('=>', '->', 'implies')), ('equiv', ('<=>', '<->', 'equiv')),
                    ('diff', ('diff', '-')), ('forall', ('\\A', 'forall')),
                    ('exists', ('\\E', 'exists')), ('ite', ('ite',))):
        if op in syms:
            return g
    return op


def sibling_conformance(rep, rec, U, m, refs, den):
    """The interpreter + Python front-end must reproduce the real dd.bdd / dd.mdd apply."""
    n = 0
    for path, cls, real in ((os.path.join(env.REPO, 'dd', 'bdd.py'), 'BDD', 'bdd'),
                            (os.path.join(env.REPO, 'dd', 'mdd.py'), 'MDD', 'mdd')):
        ir, src, _ = P.py_apply_ir(path, cls)
        scan = P.source_op_strings(src)
        if scan != P.ir_strings(ir):
            rep.note('sibling %s: text scan and AST literals differ' % cls)
            rep.add('frontend_mismatch')
        model = P.Model(U)
        interp = P.Interp(model, dd._utils.assert_operator_arity, {}, sibling=True)
        fs = list(range(1 << U.N))
        if real == 'mdd':
            from .c15 import MBuilder, IntUniverse, MDen
            mm = _mdd.MDD({v: dict(level=i, len=2) for i, v in enumerate(U.names)})
            IU = IntUniverse([(v, 2) for v in U.names])
            mb = MBuilder(mm, IU)
            mrefs = {}
            for f in fs:
                mrefs[f] = mb(f)
                mm.incref(mrefs[f])
            md = MDen(mm, IU)
        for op in sorted(dd._abc.BDD_OPERATOR_SYMBOLS):
            for arity in (1, 2, 3):
                for fu, fv, fw in _valuations(U, op, arity, stride3=3):
                    try:
                        got = interp.run(ir, op, fu, fv, fw)
                    except P.Rejected:
                        got = 'rejected'
                    except P.Uninterpreted as e:
                        rep.mark('uninterpreted_constructs', 'sibling %s: %s' % (cls, e))
                        got = 'uninterpreted'
                    if real == 'bdd':
                        want = _expected(m, refs, U, den, op, fu, fv, fw)
                    else:
                        args = [mrefs[x] for x in (fu, fv, fw) if x is not None]
                        try:
                            want = md(mm.apply(op, *args))
                        except Exception:  # noqa
                            want = 'rejected'
                    n += 1
                    if got == 'uninterpreted':
                        break
                    if got != want:
                        rec('sibling:%s:%s' % (cls, _group(op)),
                            'the extracted model of %s.apply disagrees with the running '
                            'method (model extraction is not faithful)' % cls,
                            dict(sibling=cls, op=op, arity=arity, u=U.fmt(fu),
                                 v=None if fv is None else U.fmt(fv)),
                            got=got, want=want)
                        break
                    if got == 'rejected':
                        break       # arity refusals do not depend on the valuation
    rep.add('sibling_traces', n)
    return n


def reference_model(rep, rec, path):
    name = os.path.basename(path)
    try:
        funcs = P.ref_functions(path)
    except Exception as e:  # noqa
        rep.note('%s: reference model could not be extracted (%r)' % (name, e))
        rep.add('uninterpreted')
        return
    # references parked in containers (arrays, tables): somewhere in the same file they must be
    # released through that container again
    parked, released = {}, set()
    for f in funcs:
        for kind, line, led, detail, conds in f['exits']:
            for k in led:
                if k.startswith('<park>'):
                    parked.setdefault(k[6:], (f['cls'], f['name']))
                elif k.startswith('<crel>'):
                    released.add(k[6:])
    for base, (cls_, fn_) in sorted(parked.items()):
        rep.add('evaluations')
        rep.add('containers_checked')
        if base not in released:
            rec('container-never-released:%s:%s' % (name, base),
                '%s: references are stored in the container `%s` (in %s) but no function of the '
                'file releases a reference through it' % (name, base, fn_),
                dict(file=name, function=fn_, cls=cls_, container=base))
    for f in funcs:
        fname = f['name']
        where = '%s:%s%s' % (name, (f['cls'] + '.') if f['cls'] else '', fname)
        if f['explosion']:
            rep.mark('uninterpreted_constructs', where + ': path explosion')
            rep.add('uninterpreted')
            continue
        rep.add('ref_functions')
        rep.add('ref_paths', len(f['exits']))
        rep.add('model_transitions', f['steps'])
        rep.mark('model_states', (name, fname))
        for kind, line, led, detail, conds in f['exits']:
            rep.add('evaluations')
            if kind == 'RaiseStatNode' and detail in DEFENSIVE_RAISES:
                rep.add('defensive_exits')
                continue
            if led.get('<nullderef>'):
                rec('null-release:%s:%s' % (name, fname),
                    '%s: a reference primitive is applied to a pointer that the same path has '
                    'already set to NULL (exit at line %s)' % (where, line),
                    dict(file=name, function=fname, cls=f['cls'], exit=kind, line=line))
            if led.get('<early>'):
                a_, x_ = led['<early>']
                rec('early-release:%s:%s' % (name, fname),
                    '%s: %s is released before the result %s, which may be that very node, is '
                    'referenced or known to be NULL (exit at line %s)' % (where, a_, x_, line),
                    dict(file=name, function=fname, cls=f['cls'], exit=kind, line=line))
            for k in led:
                if k.startswith('<orphan>') and led[k] and not (
                        kind == 'RaiseStatNode' and detail in DEFENSIVE_RAISES):
                    rec('orphaned-reference:%s:%s' % (name, fname),
                        '%s: the variable %s is overwritten while it still carries %+d '
                        'reference(s); they are never released (exit at line %s)' % (
                            where, k[8:], led[k], line),
                        dict(file=name, function=fname, cls=f['cls'], exit=kind, line=line,
                             variable=k[8:]))
            for k in led:
                if k.startswith('<shallow>'):
                    var = k[len('<shallow>'):]
                    rep.add('shallow_releases')
                    handed_back = kind == 'ReturnStatNode' and (
                        detail == var or var in led.get('<returned-through>', ()))
                    if fname in TRANSFER:
                        continue        # decref(u, recursive=False): the caller's choice
                    if not handed_back:
                        rec('shallow-release:%s:%s' % (name, fname),
                            '%s: %s is released with the non-recursive primitive although it is '
                            'not the value handed back on this exit (line %s): if this was the '
                            'last reference its successors are never released' % (
                                where, var, line),
                            dict(file=name, function=fname, cls=f['cls'], exit=kind, line=line,
                                 variable=var))
            cvars = set(f.get('container_vars', ()))
            scalar = {k: v for k, v in led.items()
                      if '[]' not in k and not k.startswith('<') and
                      k.split('.')[0] not in cvars}
            container = {k: v for k, v in led.items()
                         if k not in scalar and v and not k.startswith('<')}
            if container:
                rep.mark('container_mediated', where)
            field = {k: v for k, v in scalar.items() if k.endswith('._ref')}
            nodes_ = {k: v for k, v in scalar.items() if not k.endswith('._ref')}
            imb = {k: v for k, v in nodes_.items() if v}
            tot = sum(nodes_.values())
            ftot = sum(field.values())
            case = dict(file=name, function=fname, cls=f['cls'], exit=kind, line=line,
                        ledger={k: v for k, v in scalar.items() if v})
            is_transfer = fname in TRANSFER and not (
                fname in ('__dealloc__', 'init', '__cinit__') and f['cls'] not in ('Function', None))
            if is_transfer or f.get('touches_ref_field'):
                rep.add('nontrivial')
                if kind == 'RaiseStatNode':
                    # a refused call must not have moved anything
                    if tot or ftot:
                        rec('transfer:%s:%s' % (name, fname),
                            '%s moves references (%+d library, %+d lower bound) on an exit that '
                            'raises' % (where, tot, ftot), case)
                    continue
                direct = any(v and '_direct' in k for k, v in conds.items())
                want = TRANSFER.get(fname) if is_transfer else None
                ok = True
                why = ''
                if f.get('touches_ref_field') and not direct and fname not in ('init', '__cinit__'):
                    # the wrapper's own lower bound must move together with the library count
                    if tot != ftot:
                        ok, why = False, ('library references %+d but the lower bound `_ref` '
                                          '%+d' % (tot, ftot))
                if fname in ('init', '__cinit__'):
                    if tot != 1 or (f.get('touches_ref_field') and ftot != 1):
                        ok, why = False, 'the constructor must take exactly one reference'
                elif fname in ('__dealloc__', '_test_call_dealloc') and is_transfer:
                    if tot not in (-1, 0) or (tot == 0 and kind == 'fall'):
                        ok, why = False, 'disposal must give back exactly one reference'
                elif want is not None:
                    if tot != want and not (tot == 0 and kind != 'fall'):
                        ok, why = False, 'expected %+d' % want
                if direct and fname in ('decref', '_decref') and tot != -1:
                    ok, why = False, 'the direct form must release exactly one reference'
                if not ok:
                    rec('transfer:%s:%s' % (name, fname),
                        '%s: %s (exit at line %s)' % (where, why, line), case)
                continue
            if imb:
                rec('imbalance:%s:%s' % (name, fname),
                    '%s: a temporary reference is not released on the exit at line %s: %r' % (
                        where, line, imb), case)
            else:
                rep.add('balanced_exits')
                if led:
                    rep.add('nontrivial')


def wrap_model(rep, rec, path):
    name = os.path.basename(path)
    found, bad, n = P.wrap_discipline(path)
    if not found:
        rep.sections.setdefault('no_wrap_function', []).append(name)
        return
    rep.add('evaluations', n)
    rep.add('nontrivial', n)
    for line, calls in bad:
        rec('wrap:%s' % name, '%s: wrap() returns a Function that was initialised %d times '
            '(exactly one init, which takes the library reference, is expected)' % (name, calls),
            dict(file=name, function='wrap', line=line))


FUNCTION_METHODS = {
    # name -> arity; the meaning is taken from the RUNNING dd.autoref.Function
    '__invert__': 1, '__and__': 2, '__or__': 2, '__xor__': 2, 'implies': 2, 'equiv': 2,
    '__eq__': 2, '__ne__': 2, '__le__': 2, '__lt__': 2, '__ge__': 2, '__gt__': 2,
}


def function_operator_model(rep, rec, path, U, m, refs, den):
    """The operators and connective methods of the wrapper's Function class, interpreted on all
    operand valuations and compared with the running dd.autoref.Function."""
    name = os.path.basename(path)
    try:
        methods = P.cy_method_irs(path, 'Function')
        apply_ir = P.cy_apply_ir(path)[0]
    except Exception as e:  # noqa
        rep.note('%s: Function methods could not be extracted (%r)' % (name, e))
        rep.add('uninterpreted')
        return
    text = open(path, encoding='utf8').read()
    interp = P.Interp(P.Model(U), dd._utils.assert_operator_arity, _literal_sets(text))
    interp.methods = methods
    interp.apply_ir = apply_ir
    auto = S.autoref_around(m)
    fs = sorted(refs)
    hs = {f: auto._add_int(refs[f]) for f in fs}
    for meth, arity in FUNCTION_METHODS.items():
        if meth not in methods:
            rep.mark('function_methods_absent', '%s: Function.%s' % (name, meth))
            continue
        bad = None
        status = 'agrees'
        for fu in fs:
            for fv in (fs if arity == 2 else [None]):
                try:
                    got = interp.run_method(meth, fu, fv)
                except P.Uninterpreted as e:
                    status = 'uninterpreted'
                    rep.mark('uninterpreted_constructs', '%s Function.%s: %s' % (name, meth, e))
                    break
                except P.Rejected:
                    status = 'rejected'
                    break
                rep.add('evaluations')
                rep.add('model_transitions')
                if meth.startswith('__'):
                    # through the operator (u >= v falls back to v <= u where the running
                    # class defines no __ge__)
                    opf = getattr(operator, meth.strip('_') + (
                        '_' if meth in ('__and__', '__or__') else ''))
                    r = opf(*([hs[fu], hs[fv]] if arity == 2 else [hs[fu]]))
                else:
                    r = getattr(hs[fu], meth)(hs[fv])
                want = den(r.node) if hasattr(r, 'node') else bool(r)
                del r
                if got != want and bad is None:
                    bad = (fu, fv, got, want)
                elif fu not in (0, U.full):
                    rep.add('nontrivial')
            if status != 'agrees':
                break
        rep.mark('function_methods_' + status, '%s: Function.%s' % (name, meth))
        if status == 'rejected':
            rec('function-method:%s:%s' % (name, meth),
                '%s: Function.%s refuses operands of one manager' % (name, meth),
                dict(file=name, method=meth))
        if bad is not None:
            fu, fv, got, want = bad

            def show(x):
                return U.fmt(x) if isinstance(x, int) and not isinstance(x, bool) else repr(x)
            rec('function-method:%s:%s' % (name, meth),
                '%s: Function.%s(%s%s) gives %s where dd.autoref gives %s' % (
                    name, meth, U.fmt(fu), '' if fv is None else ', ' + U.fmt(fv),
                    show(got), show(want)),
                dict(file=name, method=meth, u=U.fmt(fu), v=None if fv is None else U.fmt(fv)))
    hs.clear()


def manager_and_loop_model(rep, rec, path):
    name = os.path.basename(path)
    try:
        bad, n = P.wrap_manager_uses(path)
        bad2, n2 = P.container_reuse_in_loops(path)
    except Exception as e:  # noqa
        rep.note('%s: manager / loop scan failed (%r)' % (name, e))
        rep.add('uninterpreted')
        return
    rep.add('evaluations', n + n2)
    rep.add('wraps_scanned', n)
    rep.add('release_loops_scanned', n2)
    for cls, fname, line, text, x in bad:
        rec('wrap-manager:%s:%s' % (name, fname),
            '%s:%s%s line %s: the node was produced in the manager of `%s` but the Function is '
            'wrapped for another manager: %s' % (name, (cls + '.') if cls else '', fname, line,
                                                 x, text),
            dict(file=name, function=fname, cls=cls, line=line))
    try:
        bad3, n3 = P.index_level_confusions(path)
    except Exception as e:  # noqa
        bad3, n3 = [], 0
        rep.note('%s: index/level scan failed (%r)' % (name, e))
    rep.add('evaluations', n3)
    rep.add('permutation_lookups_scanned', n3)
    for cls, fname, line, text, k, want in bad3:
        rec('index-level:%s:%s' % (name, fname),
            '%s:%s%s line %s: a variable %s is handed to a primitive that expects a %s '
            '(perm[index] = level, invperm[level] = index): %s' % (
                name, (cls + '.') if cls else '', fname, line, k, want, text),
            dict(file=name, function=fname, cls=cls, line=line))
    for cls, fname, line, base in bad2:
        rec('container-reuse:%s:%s' % (name, fname),
            '%s:%s%s line %s: the references parked in `%s` are released inside a loop, but the '
            'container is not created inside that loop: the next iteration finds entries whose '
            'references are gone' % (name, (cls + '.') if cls else '', fname, line, base),
            dict(file=name, function=fname, cls=cls, line=line, container=base))


def ite_method_model(rep, rec, path, U):
    """The manager's own `ite(g, u, v)` method (not the 'ite' branch of apply), interpreted on
    all triples of truth tables of two variables."""
    name = os.path.basename(path)
    irs = {}
    for cls in ('BDD', 'ZDD'):
        try:
            irs.update({(cls, k): v for k, v in P.cy_method_irs(path, cls).items() if k == 'ite'})
        except Exception:  # noqa
            pass
    if not irs:
        rep.mark('function_methods_absent', '%s: manager ite' % name)
        return
    text = open(path, encoding='utf8').read()
    for (cls, _), ir in irs.items():
        interp = P.Interp(P.Model(U), dd._utils.assert_operator_arity, _literal_sets(text))
        fs = list(range(1 << U.N))
        bad = None
        status = 'agrees'
        for fg in fs:
            for fu in fs:
                for fv in fs[fg % 3::3]:
                    env_ = dict(g=P.Handle(fg), u=P.Handle(fu), v=P.Handle(fv), self=P._MGR,
                                mgr=P._MGR)
                    try:
                        r = interp._block(ir, env_)
                        got = interp._mask(r)
                    except (P.Uninterpreted, P.Rejected) as e:
                        status = 'uninterpreted'
                        rep.mark('uninterpreted_constructs', '%s %s.ite: %s' % (name, cls, e))
                        break
                    rep.add('evaluations')
                    rep.add('model_transitions')
                    want = (fg & fu) | ((U.full ^ fg) & fv)
                    if got != want and bad is None:
                        bad = (fg, fu, fv, got, want)
                    elif fg not in (0, U.full):
                        rep.add('nontrivial')
                if status != 'agrees':
                    break
            if status != 'agrees':
                break
        rep.mark('function_methods_' + status, '%s: %s.ite' % (name, cls))
        if bad is not None:
            fg, fu, fv, got, want = bad
            rec('ite-method:%s:%s' % (name, cls),
                '%s: %s.ite(%s, %s, %s) gives %s where ite means %s' % (
                    name, cls, U.fmt(fg), U.fmt(fu), U.fmt(fv), U.fmt(got), U.fmt(want)),
                dict(file=name, cls=cls, method='ite'))


def lifetime_model(rep, rec, path):
    name = os.path.basename(path)
    try:
        bad, n = P.temporary_node_uses(path)
    except Exception as e:  # noqa
        rep.note('%s: lifetime scan failed (%r)' % (name, e))
        rep.add('uninterpreted')
        return
    rep.add('evaluations', n)
    rep.add('assignments_scanned', n)
    for cls, fname, line, text in bad:
        rec('temporary-node:%s:%s' % (name, fname),
            '%s:%s%s line %s: the node of a temporary Function is kept after the Function (and '
            'the library reference it holds) is gone: %s' % (
                name, (cls + '.') if cls else '', fname, line, text),
            dict(file=name, function=fname, cls=cls, line=line))


def analyse(which=None):
    rep = run.Report()
    rec = sweep.Rec(rep)
    U = Universe(('x', 'y'))
    m, refs = _real_manager(U)
    den = O.Den(m, U)
    n = sibling_conformance(rep, rec, U, m, refs, den)
    for w in WRAPPERS:
        if which is not None and w != which:
            continue
        path = os.path.join(env.REPO, 'dd', w)
        if not os.path.exists(path):
            rep.note('%s is absent' % w)
            continue
        operator_model(rep, rec, path, U, m, refs, den)
        reference_model(rep, rec, path)
        wrap_model(rep, rec, path)
        lifetime_model(rep, rec, path)
        manager_and_loop_model(rep, rec, path)
        function_operator_model(rep, rec, path, U, m, refs, den)
        ite_method_model(rep, rec, path, U)
    return rep, n


def replay(case):
    rep, _ = analyse()
    sig = case.get('sig')
    for v in rep.violations:
        if v['signature'] == sig:
            return v['what']
    return None


def main(tier, t0):
    rep, n = analyse()
    prim = P.Model(Universe(('x', 'y'))).described
    cov = dict(
        states=max(1, len(rep.sets.get('model_states', ()))),
        transitions=max(1, rep.counts.get('model_transitions', 0)),
        traces_validated_against_impl=n,
        evaluations=rep.counts.get('evaluations', 0),
        distinct_nontrivial=rep.counts.get('nontrivial', 0),
        rule=('operator model: every symbol of the documented vocabulary and of the wrapper '
              'source x arity 1..3 x every operand valuation over the 16 truth tables of two '
              'variables (first operand restricted to positive cubes for the quantifier symbols); '
              'reference model: every path (branches both ways with textually identical '
              'conditions correlated, loops 0/1/2 times, try/finally followed) through every '
              'function that calls a reference primitive; non-trivial = a non-constant operand '
              'valuation / an exit on which some reference was taken'),
        exhaustive=True,
        explanation=('model extracted from the .pyx SOURCE on every run; no trace can be replayed '
                     'against the compiled wrappers (they cannot be built offline). '
                     'traces_validated_against_impl counts the traces of the sibling models '
                     '(dd/bdd.py and dd/mdd.py `apply`, lowered by the second front-end and run '
                     'by the same interpreter) that were replayed against the running methods.'),
        trusted_base=['primitive meanings: ' + '; '.join('%s = %s' % kv for kv in prim.items()),
                      'reference primitives: take=%s release=%s owned-result=%s' % (
                          sorted(P.REF), sorted(P.DEREF), sorted(P.OWNED)),
                      'Cython.Compiler parser (3.0.0) for .pyx; Python ast for .py'],
        container_mediated_functions=sorted(rep.sets.get('container_mediated', ())),
        uninterpreted=sorted(rep.sets.get('uninterpreted_constructs', ())))
    for k in ('model_states', 'container_mediated', 'uninterpreted_constructs'):
        rep.sets.pop(k, None)
    rep.sample(dict(kind='operator', wrapper='cudd.pyx', op='diff', u='0110', v='0011',
                    model='Cudd_bddIte(u, Cudd_Not(v), zero)'))
    rep.sample(dict(kind='reference path', function='cudd_zdd.pyx:_exist',
                    exits='return / NULL-propagation paths, ledger per scalar local'))
    return run.finish(PROP, 'model_checking', tier, rep, t0, cov,
                      assumptions=['the extensions cannot be compiled here: the model is bound to '
                                   'the source text, not to a binary',
                                   'exits through `raise AssertionError` are defensive and are not '
                                   'judged; references parked in C arrays or Python containers are '
                                   'reported as container-mediated (coverage loss), not judged'],
                      replay_fn=replay)
