"""C02 — canonical form: references are equal exactly when the functions are equal.

Route sweep: every function of n variables is built by every construction route in
every order and all routes must return the same integer; then the manager is checked
by the independent oracle (reduced, ordered, no complemented high edge, unique,
semantically distinct nodes). History part: BFS where the same oracle runs in every
state (also discharged by the BFS of C06, C07, C14 which run the same invariant).
"""
import os

from .. import env, run, sweep
from .. import oracle as O
from .. import state as S
from ..oracle import Violation
from ..ref import Universe, names_for
from ..explore import bfs
from ..machines import BddMachine

import dd.bdd as _bdd
import dd.autoref as _autoref

PROP = 'C02'


def dnf_string(U, f, style):
    """Independent DNF/CNF text of mask f."""
    if f == 0:
        return 'FALSE'
    if f == U.full:
        return 'TRUE'
    AND, OR, NOT = [('/\\', '\\/', '~'), ('&', '|', '!'), ('&&', '||', '~')][style % 3]
    terms = []
    if style % 2 == 0:
        for a, asg in _assignments(U):
            if (f >> a) & 1:
                terms.append('(' + f' {AND} '.join(
                    (n if v else f'{NOT}{n}') for n, v in asg.items()) + ')')
        return f' {OR} '.join(terms)
    for a, asg in _assignments(U):
        if not (f >> a) & 1:
            terms.append('(' + f' {OR} '.join(
                (f'{NOT}{n}' if v else n) for n, v in asg.items()) + ')')
    return f' {AND} '.join(terms)


def _assignments(U, names=None):
    """Assignments to the proper names only (the selector '_s' is left out)."""
    ns = [n for n in U.names if n != '_s']
    for a in range(1 << len(ns)):
        asg = {n: bool((a >> i) & 1) for i, n in enumerate(ns)}
        idx = sum(1 << U.idx[n] for n, v in asg.items() if v)
        yield idx, asg


def route_minterms(m, U, f):
    r = -1
    for a, asg in _assignments(U):
        if (f >> a) & 1:
            c = m.cube(asg)
            r = m.apply('or', r, c)
    return r


def route_shannon(m, U, f, names):
    if f == 0:
        return -1
    if f == U.full:
        return 1
    x = names[0]
    f0 = route_shannon(m, U, U.cof(f, x, 0), names[1:])
    f1 = route_shannon(m, U, U.cof(f, x, 1), names[1:])
    return m.ite(m.var(x), f1, f0)


def _file_routes(bdd, r1, pid):
    """Dump [r1] and load it back into the same manager (locals die with this frame)."""
    out = []
    fp = 'c02-%d.p' % pid
    fj = 'c02-%d.json' % pid
    h = bdd._add_int(r1)
    bdd.dump(fp, roots=[h])
    back = bdd.load(fp)
    out.append(('pickle', back[0].node))
    if abs(r1) != 1:
        bdd.dump(fj, roots=[h])
        back = bdd.load(fj)
        out.append(('json', back[0].node))
    return out


def task_routes(t):
    _, n, oi, heavy, si, ns, focus = t
    rep = run.Report()
    rec = sweep.Rec(rep)
    env.scratch_dir()
    names = names_for(n, env.SEED)
    U = Universe(names + ('_s',))
    order = sweep.orders(names)[oi]
    rev = {v: n - 1 - l for v, l in order.items()}
    order = dict(order, _s=n)
    rev['_s'] = n
    bdd = S.new_autoref(order)
    m = bdd._bdd
    other = S.new_bdd(rev)
    b = sweep.Builder(m, U)
    bo = sweep.Builder(other, U)
    rot = dict(zip(names, names[1:] + names[:1]))
    unrot = {v: k for k, v in rot.items()}
    fs = U.all_functions(names)
    mine = sweep.shard(fs, ns)[si]
    held = {}
    pid = os.getpid()
    for k, f in enumerate(mine):
        if focus is not None and f != focus:
            continue
        case = dict(task=t[:-1] + (f,), u=U.fmt(f))
        try:
            r1 = b.verified(f)
            m.incref(r1)
            held[abs(r1)] = held.get(abs(r1), 0) + 1
            routes = [('find_or_add', r1)]
            routes.append(('minterms', route_minterms(m, U, f)))
            routes.append(('to_expr/add_expr', m.add_expr(m.to_expr(r1))))
            routes.append(('dnf-text', m.add_expr(dnf_string(U, f, k))))
            routes.append(('shannon-ite', route_shannon(m, U, f, names[::-1] if k % 2 else names)))
            if heavy or k % 16 == 0:
                # substitution: rename a rotated copy back; cofactor of a mux
                g = b.verified(U.rename(f, rot))
                routes.append(('let-rename', m.let(unrot, g)))
                z = '_s'
                mux = m.ite(m.var(z), r1, -r1)
                routes.append(('let-const', m.let({z: True}, mux)))
                # quantification: exists _s. (f and _s)
                routes.append(('exist', m.exist([z], m.apply('and', r1, m.var(z)))))
                # relational product: the top variable of the order replaced by _s (which sits
                # at the bottom, so the pair is NOT adjacent for n > 1) and renamed back
                x0 = min(names, key=lambda v_: order[v_])
                fp = b.verified(U.rename(f, {x0: z}))
                routes.append(('image-rename', _bdd.image(fp, 1, {z: x0}, set(), m)))
                # copy from a manager with the reverse order
                ro = bo.verified(f)
                routes.append(('copy', _bdd.copy_bdd(ro, other, m)))
                # pickle / JSON round trips into the same manager
                routes.extend(_file_routes(bdd, r1, pid))
            d = b.den
            for how, r in routes:
                rep.add('evaluations')
                if r != r1:
                    if d(r) == f:
                        rec('route:' + how, 'two routes to the same function give different '
                            'references', case, route=how, got=r, want=r1)
                    else:
                        rec('route-wrong:' + how, 'a construction route built another function',
                            case, route=how)
            if (r1 == 1) != (f == U.full) or (r1 == -1) != (f == 0):
                rec('constants', 'comparison with true/false does not decide validity', case)
            if f not in (0, U.full):
                rep.add('nontrivial', len(routes))
        except Violation as e:
            rec('broken:' + e.what, e.what, case, **e.detail)
        except Exception as e:  # noqa
            rec('exception:' + type(e).__name__, 'raised %r' % (e,), case)
        if n >= 4 and k % 512 == 511:
            _oracle(rec, bdd, held, U, t)
            for u in list(held):
                for _ in range(held[u]):
                    m.decref(u)
            held = {}
            m.collect_garbage()
            other.collect_garbage()
            b.reset()
            bo.reset()
    _oracle(rec, bdd, held, U, t)
    for fn_ in ('c02-%d.p' % pid, 'c02-%d.json' % pid):
        try:
            os.remove(fn_)
        except OSError:
            pass
    if si == 0 and focus is None:
        rep.sample(dict(order=sweep.order_str(order), u=U.fmt(mine[len(mine) // 3]),
                        routes=['find_or_add', 'minterms', 'to_expr/add_expr', 'dnf-text',
                                'shannon-ite', 'let-rename', 'let-const', 'exist', 'image-rename', 'copy', 'pickle',
                                'json']))
    return rep


def _oracle(rec, bdd, held, U, t):
    env.settle()
    try:
        O.check(bdd, dict(held), U)
    except Violation as e:
        rec('manager:' + e.what, e.what, dict(task=t), **e.detail)


def dispatch(t):
    return task_routes(t)


def plan(tier):
    ts = []
    if tier == 'quick':
        for oi in range(6):
            ts.append(('r', 3, oi, True, 0, 1, None))
        for oi in range(2):
            ts.append(('r', 2, oi, True, 0, 1, None))
        for si in range(16):
            ts.append(('r', 4, 9, False, si, 32, None))
    else:
        for oi in range(6):
            ts.append(('r', 3, oi, True, 0, 1, None))
        for oi in range(2):
            ts.append(('r', 2, oi, True, 0, 1, None))
        for oi in range(24):
            for si in range(8):
                ts.append(('r', 4, oi, False, si, 8, None))
    return ts


def deep_machines(tier):
    a = dict(names=('x', 'y'), max_handles=3, max_ext=1, ops=('and', 'xor'), with_ite=False,
             with_let=True, with_quant=True, seeds=('fresh', 'used'))
    b3 = dict(names=('x', 'y', 'z'), max_handles=2, max_ext=1, ops=('xor',), with_ite=False,
              with_let=True, with_quant=True, seeds=('fresh', 'used'))
    pl = [('routes2', a, 3), ('routes3', b3, 4)] if tier == 'quick' else \
        [('routes2', a, 5), ('routes3', b3, 6)]
    out = []
    for label, kw, depth in pl:
        kw = dict(kw)
        mm = BddMachine(kw.pop('names'), **kw)
        mm.name = 'bdd-history/' + label
        out.append((mm, depth))
    # interleavings with variable declarations / removals (the machine of C14)
    from .c14 import VarMachine
    vm = VarMachine(pool=('x', 'y', 'z'), seeds=('empty', 'two', 'three-garbage'))
    vm.name = 'vars/c02'
    vm.names = vm.pool
    out.append((vm, 5 if tier == 'quick' else 7))
    return out


_by_task = sweep.replay_by_task(dispatch)


def replay(case):
    if 'trace' in case:
        if case.get('machine', '').startswith('vars/'):
            from .c14 import VarMachine
            vm = VarMachine(pool=tuple(case['names']),
                            seeds=('empty', 'two', 'three-garbage'))
            return vm.replay(case)
        mm = BddMachine(tuple(case['names']), max_handles=9, max_ext=9, with_let=True,
                        with_quant=True)
        return mm.replay(case)
    return _by_task(case)


def main(tier, t0):
    rep = run.Report()
    tasks = plan(tier)
    run.pmerge(dispatch, tasks, rep)
    run.close_pool()
    deep = dict(states=0, transitions=0, validated=0)
    bounds = {}
    for mach, depth in deep_machines(tier):
        r = run.Report()
        res = bfs(mach, depth, r)
        run.close_pool()
        for v in r.violations:
            v['case']['names'] = list(mach.names)
        for s in r.samples:
            s['names'] = list(mach.names)
        rep.merge(r)
        for k in deep:
            deep[k] += res[k]
        bounds[mach.name] = dict(depth_completed=res['completed_depth'],
                                 states_per_layer=res['layers'])
    cov = dict(
        evaluations=rep.counts.get('evaluations', 0) + deep['transitions'],
        distinct_nontrivial=rep.counts.get('nontrivial', 0),
        rule=('route sweep: every function of n named variables (n = 2, 3 every order and every '
              'route; n = 4: routes 1-5 for every function, routes 6-10 for every 16th function by '
              'index - a stated stride, one order quick / all 24 thorough) built by every route; '
              'all routes must return the same integer; independent oracle on the manager. '
              'non-trivial = non-constant function; distinct by construction'),
        exhaustive=True,
        states=deep['states'], transitions=deep['transitions'],
        traces_validated_against_impl=deep['validated'],
        history_bounds=bounds, tasks=len(tasks),
        explanation=('state invariant (mc/oracle.check incl. pairwise semantic distinctness of all '
                     'stored nodes) evaluated in every state of the BFS; the same invariant runs '
                     'in every state of the C06, C07, C14 explorations'))
    return run.finish(PROP, 'model_checking', tier, rep, t0, cov,
                      assumptions=['truth-table model; independent oracle mc/oracle.py',
                                   'n = 4 routes 6-10 on an index stride (stated, not a sample of '
                                   'the claim: n <= 3 carries the exhaustive claim)'],
                      replay_fn=replay)
