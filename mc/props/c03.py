"""C03 — quantification equals the disjunction/conjunction of cofactors.

Exhaustive: every function of n named variables, every subset of declared variables
(plus an undeclared-in-support extra variable), both quantifiers, every order, all
entry points (quantify / exist / forall / quantifier forms of apply / autoref /
Function methods), contexts K0, K1, K3.
"""
from .. import env, run, sweep
from .. import oracle as O
from .. import state as S
from ..oracle import Violation
from ..ref import Universe, names_for

PROP = 'C03'


def _containers(q, k):
    k = k % 4
    if k == 0:
        return list(q)
    if k == 1:
        return set(q)
    if k == 2:
        return tuple(q)
    return (x for x in q)


def task_bdd(t):
    """dd.bdd: quantify/exist/forall/apply forms. t = (kind, n, oi, ctx, extra, si, ns, focus)"""
    _, n, oi, ctx, extra, si, ns, focus = t
    rep = run.Report()
    rec = sweep.Rec(rep)
    names = names_for(n, env.SEED)
    U = Universe(names + (('_e',) if extra is not None else ()))
    base = sweep.orders(names)[oi]
    if extra is None:
        order = base
    else:
        # an extra declared variable (outside every support) at position `extra`
        seq = sorted(base, key=base.get)
        seq.insert(extra, '_e')
        order = {v: i for i, v in enumerate(seq)}
    masks = U.all_functions(names)
    try:
        m, refs, ext, b = sweep.make_context(ctx, order, U, masks)
    except Violation as v:
        rec('context:' + v.what, v.what, dict(task=t))
        return rep
    inv = {}
    for f, r in refs.items():
        inv[r] = f
        inv[-r] = U.full ^ f
    den = O.Den(m, U)
    declared = list(order)
    qsets = list(sweep.subsets(declared))
    # cube-like first operands for the apply forms: support exactly Q
    wrefs = {}
    for Q in qsets:
        if not Q:
            continue
        ws = []
        conj = U.full
        disj = 0
        par = 0
        for v in Q:
            conj &= U.var(v)
            disj |= U.var(v)
            par ^= U.var(v)
        for wm in {conj, disj, par}:
            if U.support(wm) == set(Q):
                r = b.verified(wm)
                m.incref(r)
                ext[abs(r)] = ext.get(abs(r), 0) + 1
                ws.append(r)
        wrefs[Q] = ws
    fs = sorted(refs)
    mine = sweep.shard(fs, ns)[si]
    passes = 2 if ctx == 'K3' else 1
    F = U.full
    for p in range(passes):
        _decoy = sweep.Decoy(names, twin_of=m)
        for k, fu in enumerate(mine):
            _bad = _decoy.poke()
            if _bad:
                rec('second-manager:' + _bad, _bad, dict(task=t))
            if focus is not None and fu != focus:
                continue
            u = refs[fu]
            for qi, Q in enumerate(qsets):
                for fa in (False, True):
                    want = U.quantify(fu, Q, fa)
                    case = dict(task=t[:-1] + (fu,), u=U.fmt(fu), Q=list(Q), forall=fa)
                    results = []
                    try:
                        results.append(('quantify', m.quantify(u, _containers(Q, k + qi), fa)))
                        if fa:
                            results.append(('forall', m.forall(_containers(Q, k + qi + 1), u)))
                        else:
                            results.append(('exist', m.exist(_containers(Q, k + qi + 1), u)))
                        for w in wrefs.get(Q, ()):
                            syms = ('\\A', 'forall') if fa else ('\\E', 'exists')
                            for sym in syms:
                                results.append(('apply ' + sym, m.apply(sym, w, u)))
                    except Exception as e:  # noqa
                        rec('exception:' + type(e).__name__,
                            'quantification raised %r' % (e,), case)
                        continue
                    for how, r in results:
                        got = inv.get(r)
                        if got is None:
                            try:
                                got = den(r)
                            except Violation as e:
                                rec('broken-result:' + how, e.what, case)
                                continue
                        rep.add('evaluations')
                        if got != want:
                            rec('wrong:' + how.split()[0] + (':forall' if fa else ':exist'),
                                '%s denotes the wrong function' % how, case,
                                got=U.fmt(got), want=U.fmt(want))
                        if set(Q) & U.support(got):
                            rec('depends:' + how.split()[0],
                                'result depends on a quantified variable', case)
                    if not (set(Q) & U.support(fu)):
                        # nothing to quantify: same reference back
                        if any(r != u for _, r in results):
                            rec('identity', 'quantifying variables outside the support '
                                'changed the reference', case)
                    elif p == 0:
                        rep.add('nontrivial', len(results))
    try:
        den = O.Den(m, U)
        O.check(m, ext, U, den)
        for f, r in refs.items():
            if den(r) != f:
                raise Violation('an operand changed denotation during the sweep')
    except Violation as v:
        rec('after-sweep:' + v.what, v.what, dict(task=t), **v.detail)
    if si == 0 and focus is None:
        rep.sample(dict(entry='quantify/exist/forall/apply', n=n, order=sweep.order_str(order),
                        ctx=ctx, u=U.fmt(fs[len(fs) // 3]), Q=list(qsets[-1]), forall=True))
    return rep


def task_autoref(t):
    """dd.autoref manager methods and Function.exist/forall."""
    _, n, oi, si, ns, focus = t
    rep = run.Report()
    rec = sweep.Rec(rep)
    names = names_for(n, env.SEED)
    U = Universe(names)
    order = sweep.orders(names)[oi]
    bdd = S.new_autoref(order)
    refs, b = sweep.build_all(bdd, U, hold=False)
    fn = {f: bdd._add_int(r) for f, r in refs.items()}
    den = O.Den(bdd, U)
    qsets = list(sweep.subsets(names))
    fs = sorted(refs)
    mine = sweep.shard(fs, ns)[si]
    for fu in mine:
        if focus is not None and fu != focus:
            continue
        u = fn[fu]
        for Q in qsets:
            for fa in (False, True):
                want = U.quantify(fu, Q, fa)
                case = dict(task=t[:-1] + (fu,), u=U.fmt(fu), Q=list(Q), forall=fa)
                try:
                    rs = [bdd.quantify(u, set(Q), fa),
                          (bdd.forall if fa else bdd.exist)(list(Q), u),
                          (u.forall if fa else u.exist)(*Q)]
                    for r in rs:
                        rep.add('evaluations')
                        if den(r) != want:
                            rec('autoref-wrong' + (':forall' if fa else ':exist'),
                                'autoref quantification denotes the wrong function', case)
                    if set(Q) & U.support(fu):
                        rep.add('nontrivial', len(rs))
                    del rs, r
                except Violation as e:
                    rec('autoref-broken', e.what, case)
                except Exception as e:  # noqa
                    rec('autoref-exception:' + type(e).__name__, 'raised %r' % (e,), case)
    ext = {}
    for f, x in fn.items():
        ext[abs(x.node)] = ext.get(abs(x.node), 0) + 1
    env.settle()
    try:
        O.check(bdd, ext, U)
    except Violation as e:
        rec('autoref-after:' + e.what, e.what, dict(task=t), **e.detail)
    return rep


def task_wide(t):
    """Functions of three variables embedded at every 3-subset of the levels of a manager with
    10 declared variables; quantified sets drawn from the support and two other variables
    (one between support levels when there is a gap, one below)."""
    _, nvars, si, ns, focus = t
    rep = run.Report()
    rec = sweep.Rec(rep)
    bdd, decl = sweep.wide_manager(nvars, env.SEED)
    kk = sweep.wide_k(nvars)
    mine = sweep.shard(sweep.wide_subsets(nvars, kk), ns)[si]
    for lv in mine:
        names = tuple(decl[i] for i in lv)
        others = [i for i in range(nvars) if i not in lv]
        between = [i for i in others if lv[0] < i < lv[-1]]
        ex = [decl[(between or others)[0]], decl[others[-1]]]
        U = Universe(names + tuple(dict.fromkeys(ex)))
        b = sweep.Builder(bdd, U)
        qsets = list(sweep.subsets(U.names))
        if kk > 3:
            # very wide manager: the large sets (five and more levels, some of them >= 32)
            qsets = [q for q in qsets if len(q) >= kk or len(q) == 1]
        for fu in sweep.wide_functions(U, names):
            if focus is not None and sweep.norm([lv, fu]) != sweep.norm(focus):
                continue
            try:
                u = b.verified(fu)
            except Exception as e:  # noqa
                rec('wide-build', 'raised %r' % (e,), dict(task=t[:-1] + ([list(lv), fu],)))
                continue
            for Q in qsets:
                for fa in (False, True):
                    case = dict(task=t[:-1] + ([list(lv), fu],), levels=list(lv), u=U.fmt(fu),
                                Q=list(Q), forall=fa)
                    try:
                        r = bdd.quantify(u, set(Q), fa)
                        rep.add('evaluations')
                        if b.den(r) != U.quantify(fu, Q, fa):
                            rec('wide:' + ('forall' if fa else 'exist'),
                                'quantify denotes the wrong function in a wide manager', case)
                        if set(Q) & U.support(fu):
                            rep.add('nontrivial')
                    except Violation as e:
                        rec('wide-broken', e.what, case)
                    except Exception as e:  # noqa
                        rec('wide-exception:' + type(e).__name__, 'raised %r' % (e,), case)
        bdd.collect_garbage()
        b.reset()
    if si == 0 and focus is None and mine:
        rep.sample(dict(kind='wide manager', declared=nvars, support_levels=list(mine[len(mine) // 2])))
    return rep


def task_reorder(t):
    """Quantification while DYNAMIC REORDERING fires inside the call: the request is forced at
    the k-th node creation and the reordering it triggers is made to END IN a chosen order
    (every permutation of three variables: the heuristic is free to pick any)."""
    import itertools
    import dd.bdd as _bdd
    from .c09 import Seam
    _, k, si, ns, focus = t
    rep = run.Report()
    rec = sweep.Rec(rep)
    names = names_for(3, env.SEED)
    U = Universe(names)
    m = S.new_bdd({v: i for i, v in enumerate(names)})
    refs, b = sweep.build_all(m, U)
    m.configure(reordering=True)
    fs = sorted(refs)
    perms = [p for p in itertools.permutations(names)]
    qsets = [q for q in sweep.subsets(names) if q]

    class PickOrder(Seam):
        target = None

        def _reorder(self, bdd, *a, **kw):
            if self.active and not a and not kw and self.target is not None:
                self.reorders += 1
                return self.orig_reorder(bdd, dict(self.target))
            return Seam._reorder(self, bdd, *a, **kw)
    seam = PickOrder()
    if not seam.available():
        rep.note('dd.bdd._request_reordering is absent: reordering cannot be forced')
        return rep
    forms = ('quantify', 'exist', 'forall', 'apply-E', 'apply-A')
    mine = sweep.shard(fs, ns)[si]
    with seam:
        for fu in mine:
            if focus is not None and fu != focus:
                continue
            u = refs[fu]
            for pi, perm in enumerate(perms):
                seam.target = {v: i for i, v in enumerate(perm)}
                for Q in qsets:
                    form = forms[(fu + pi + len(Q)) % len(forms)]
                    fa = form in ('forall', 'apply-A') or (form == 'quantify' and (fu + pi) % 2)
                    case = dict(task=t[:-1] + (fu,), u=U.fmt(fu), Q=list(Q), form=form,
                                forall=bool(fa), position=k, order_after=list(perm))
                    try:
                        cube = None
                        if form.startswith('apply'):
                            cm = U.full
                            for x in Q:
                                cm &= U.var(x)
                            cube = b(cm)
                            m.incref(cube)
                        if getattr(m, '_last_len', None) is None:
                            m.configure(reordering=True)
                        seam.arm((k,))
                        try:
                            # the variables as a set, list, tuple or ONE-SHOT iterator
                            # (`qvars` is documented as an iterable): the container rotates
                            qv = _containers(Q, fu + pi + len(Q))
                            if form == 'quantify':
                                r = m.quantify(u, qv, bool(fa))
                            elif form == 'exist':
                                r = m.exist(qv, u)
                            elif form == 'forall':
                                r = m.forall(qv, u)
                            elif form == 'apply-E':
                                r = m.apply('\\E', cube, u)
                            else:
                                r = m.apply('forall', cube, u)
                        finally:
                            seam.disarm()
                        fired = seam.reorders
                        if cube is not None:
                            m.decref(cube)
                        rep.add('evaluations')
                        if fired:
                            rep.add('reordered_inside')
                            if set(Q) & U.support(fu):
                                rep.add('nontrivial')
                        b.reset()
                        if O.Den(m, U)(r) != U.quantify(fu, Q, bool(fa)):
                            rec('reorder:' + form, 'quantification gives another function when '
                                'dynamic reordering fires inside the call', case)
                    except Violation as e:
                        rec('reorder-broken:' + e.what, e.what, case)
                    except Exception as e:  # noqa
                        rec('reorder-exception:' + type(e).__name__, 'raised %r' % (e,), case)
    try:
        den = O.Den(m, U)
        for f, r in refs.items():
            if den(r) != f:
                raise Violation('a held operand changed denotation')
        O.check(m, None, U)
    except Violation as e:
        rec('reorder-after:' + e.what, e.what, dict(task=t), **e.detail)
    if si == 0 and focus is None:
        rep.sample(dict(kind='quantification with reordering forced inside', position=k,
                        final_orders='every permutation of 3 variables'))
    return rep


TASKS = dict(bdd=task_bdd, autoref=task_autoref, wide=task_wide, reorder=task_reorder)


def dispatch(t):
    return TASKS[t[0]](t)


def plan(tier):
    ts = [('wide', 10, si, 16, None) for si in range(16)]
    ts += [('wide', sweep.XWIDE, si, 16, None) for si in range(16)]
    ts += [('reorder', k, si, 8, None) for k in (1, 2) for si in range(8)]
    if tier == 'quick':
        n = 3
        for oi in range(6):
            for ctx in ('K0', 'K1', 'K2', 'K3'):
                ts.append(('bdd', n, oi, ctx, None, 0, 1, None))
            for e in range(4):
                ts.append(('bdd', n, oi, ('K0', 'K1')[e % 2], e, 0, 1, None))
            ts.append(('autoref', n, oi, 0, 1, None))
    else:
        for oi in range(6):
            for ctx in ('K0', 'K1', 'K2', 'K3'):
                ts.append(('bdd', 3, oi, ctx, None, 0, 1, None))
            for e in range(4):
                ts.append(('bdd', 3, oi, 'K1', e, 0, 1, None))
            ts.append(('autoref', 3, oi, 0, 1, None))
        for oi in range(24):
            for si in range(8):
                ts.append(('bdd', 4, oi, ('K0', 'K1', 'K3')[oi % 3], None, si, 8, None))
        for oi in range(0, 24, 5):
            for si in range(8):
                ts.append(('autoref', 4, oi, si, 8, None))
    return ts


replay = sweep.replay_with_machines(sweep.replay_by_task(dispatch))


def main(tier, t0):
    return sweep.run_driver(
        PROP, tier, t0, plan(tier), dispatch,
        rule=('every function of n named variables (n=3; thorough also n=4) x every subset of '
              'the declared variables x both quantifiers x every order x contexts x entry points '
              '(quantify, exist, forall, apply with \\A forall \\E exists and first operands whose '
              'support is exactly the subset, autoref methods, Function.exist/forall); '
              'non-trivial = the subset meets the support of the function; distinct by '
              'construction of the enumeration'),
        assumptions=['truth-table model of quantification = fold of OR/AND over cofactors '
                     '(mc/ref.py)'],
        replay_fn=replay,
        machines=__import__('mc.machines', fromlist=['x']).mixed_machines(tier))
