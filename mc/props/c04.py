"""C04 — `let` performs exact simultaneous substitution (constants, functions, names)."""
import itertools

from .. import env, run, sweep
from .. import oracle as O
from .. import state as S
from ..oracle import Violation
from ..ref import Universe, names_for

PROP = 'C04'


def partial_assignments(names):
    for vals in itertools.product((None, False, True), repeat=len(names)):
        d = {n: v for n, v in zip(names, vals) if v is not None}
        if d:
            yield d


def var_maps(names):
    """Every map from a non-empty subset of names into names (injective or not)."""
    for k in range(1, len(names) + 1):
        for keys in itertools.combinations(names, k):
            for vals in itertools.product(names, repeat=k):
                yield dict(zip(keys, vals))


def family(U):
    """Closed family G of replacement functions (written out in the evidence)."""
    X = [U.var(n) for n in U.names]
    F = U.full
    G = [0, F] + X + [F ^ x for x in X]
    for i, j in itertools.combinations(range(len(X)), 2):
        G += [X[i] & X[j], X[i] ^ X[j], X[i] | (F ^ X[j])]
    if len(X) >= 3:
        G.append((X[0] & X[1]) | (X[1] & X[2]) | (X[0] & X[2]))
        G.append(X[0] ^ X[1] ^ X[2])
    out = []
    for g in G:
        if g not in out:
            out.append(g)
    return out


def _ctx(t_n, oi, ctx, rec, t):
    names = names_for(t_n, env.SEED)
    U = Universe(names)
    order = sweep.orders(names)[oi]
    m, refs, ext, b = sweep.make_context(ctx, order, U)
    inv = {}
    for f, r in refs.items():
        inv[r] = f
        inv[-r] = U.full ^ f
    return names, U, order, m, refs, ext, b, inv


def _after(rec, m, ext, U, refs, t):
    try:
        den = O.Den(m, U)
        O.check(m, ext, U, den)
        for f, r in refs.items():
            if den(r) != f:
                raise Violation('an operand changed denotation during the sweep')
    except Violation as v:
        rec('after-sweep:' + v.what, v.what, dict(task=t), **v.detail)


def task_const_rename(t):
    """(i) partial assignments and (ii) variable-to-variable maps, dd.bdd entry points."""
    _, n, oi, ctx, si, ns, focus = t
    rep = run.Report()
    rec = sweep.Rec(rep)
    try:
        names, U, order, m, refs, ext, b, inv = _ctx(n, oi, ctx, rec, t)
    except Violation as v:
        rec('context:' + v.what, v.what, dict(task=t))
        return rep
    den = O.Den(m, U)
    pas = list(partial_assignments(names))
    maps = list(var_maps(names))
    wp = [(d, None) for d in pas]
    fs = sorted(refs)
    mine = sweep.shard(fs, ns)[si]

    def val(r):
        g = inv.get(r)
        return den(r) if g is None else g
    _decoy = sweep.Decoy(names, twin_of=m)
    for fu in mine:
        _bad = _decoy.poke()
        if _bad:
            rec('second-manager:' + _bad, _bad, dict(task=t))
        if focus is not None and fu != focus:
            continue
        u = refs[fu]
        sup = U.support(fu)
        for d in [{}] + pas:
            want = U.restrict(fu, d)
            case = dict(task=t[:-1] + (fu,), u=U.fmt(fu), d=d)
            try:
                for how, r in (('let', m.let(dict(d), u)), ('cofactor', m.cofactor(u, dict(d))),
                               ('rename', m.rename(u, {}) if not d else None),
                               ('compose', m.compose(u, {}) if not d else None)):
                    if r is None:
                        continue
                    rep.add('evaluations')
                    if val(r) != want:
                        rec('const:' + how, '%s with constants denotes the wrong function' % how,
                            case, got=U.fmt(val(r)), want=U.fmt(want))
                if sup & set(d):
                    rep.add('nontrivial', 2)
            except Violation as e:
                rec('const-broken', e.what, case)
            except Exception as e:  # noqa
                rec('const-exception:' + type(e).__name__, 'raised %r' % (e,), case)
        for d in maps:
            want = U.rename(fu, d)
            case = dict(task=t[:-1] + (fu,), u=U.fmt(fu), d=d)
            try:
                for how, r in (('let', m.let(dict(d), u)), ('rename', m.rename(u, dict(d)))):
                    rep.add('evaluations')
                    if val(r) != want:
                        rec('rename:' + how, '%s with names denotes the wrong function' % how,
                            case, got=U.fmt(val(r)), want=U.fmt(want))
                if sup & {k for k, v in d.items() if k != v}:
                    rep.add('nontrivial', 2)
            except Violation as e:
                rec('rename-broken', e.what, case)
            except Exception as e:  # noqa
                rec('rename-exception:' + type(e).__name__, 'raised %r' % (e,), case)
    _after(rec, m, ext, U, refs, t)
    if si == 0 and focus is None:
        rep.sample(dict(kind='rename', order=sweep.order_str(order), ctx=ctx,
                        u=U.fmt(fs[len(fs) // 3]), d=maps[len(maps) // 2]))
        rep.sample(dict(kind='constants', order=sweep.order_str(order), ctx=ctx,
                        u=U.fmt(fs[len(fs) // 3]), d=pas[len(pas) // 2]))
    return rep


def task_compose(t):
    """(iii) substitution of functions: |d|=1 over all of F(n); |d|>=2 over the family G."""
    _, n, oi, ctx, sizes, si, ns, focus = t
    rep = run.Report()
    rec = sweep.Rec(rep)
    try:
        names, U, order, m, refs, ext, b, inv = _ctx(n, oi, ctx, rec, t)
    except Violation as v:
        rec('context:' + v.what, v.what, dict(task=t))
        return rep
    den = O.Den(m, U)
    G = family(U)
    fs = sorted(refs)
    mine = sweep.shard(fs, ns)[si]
    # memoise the model: compose is the slow part of the reference
    def val(r):
        g = inv.get(r)
        return den(r) if g is None else g
    for fu in mine:
        if focus is not None and fu != focus:
            continue
        u = refs[fu]
        sup = U.support(fu)
        if 1 in sizes:
            for x in names:
                for fg in fs:
                    case = dict(task=t[:-1] + (fu,), u=U.fmt(fu), d={x: U.fmt(fg)})
                    try:
                        d = {x: refs[fg]}
                        r1 = m.let(d, u)
                        r2 = m.compose(u, d)
                        want = U.compose(fu, {x: fg})
                        rep.add('evaluations', 2)
                        if val(r1) != want or val(r2) != want:
                            rec('compose1', 'let/compose of one variable denotes the wrong '
                                'function', case, got=U.fmt(val(r1)), want=U.fmt(want))
                        if x in sup and fg != U.var(x):
                            rep.add('nontrivial', 2)
                    except Violation as e:
                        rec('compose1-broken', e.what, case)
                    except Exception as e:  # noqa
                        rec('compose1-exception:' + type(e).__name__, 'raised %r' % (e,), case)
        for k in sizes:
            Gk = G
            if k == '3s':
                # three simultaneous replacements over a reduced family (constants, literals of
                # replaced variables, a conjunction, a parity, majority)
                k = 3
                Gk = [g for i_, g in enumerate(G) if i_ in (0, 1, 2, 3, 5, 8, 9, len(G) - 2)]
            if k < 2:
                continue
            for keys in itertools.combinations(names, k):
                for gs in itertools.product(Gk, repeat=k):
                    case = dict(task=t[:-1] + (fu,), u=U.fmt(fu),
                                d={x: U.fmt(g) for x, g in zip(keys, gs)})
                    try:
                        d = {x: refs[g] for x, g in zip(keys, gs)}
                        r1 = m.let(d, u)
                        want = U.compose(fu, dict(zip(keys, gs)))
                        rep.add('evaluations')
                        if val(r1) != want:
                            rec('compose%d' % k, 'let with several replacement functions denotes '
                                'the wrong function', case, got=U.fmt(val(r1)), want=U.fmt(want))
                        if sup & set(keys):
                            rep.add('nontrivial')
                    except Violation as e:
                        rec('composeN-broken', e.what, case)
                    except Exception as e:  # noqa
                        rec('composeN-exception:' + type(e).__name__, 'raised %r' % (e,), case)
    _after(rec, m, ext, U, refs, t)
    if si == 0 and focus is None:
        rep.sections['replacement_family_G'] = [U.fmt(g) for g in G]
        rep.sample(dict(kind='compose', order=sweep.order_str(order), ctx=ctx,
                        u=U.fmt(fs[len(fs) // 3]),
                        d={names[0]: U.fmt(G[-1]), names[1]: U.fmt(U.var(names[0]))}))
    return rep


def task_autoref(t):
    """autoref.BDD.let and Function.let(**defs) for the three forms."""
    _, n, oi, si, ns, focus = t
    rep = run.Report()
    rec = sweep.Rec(rep)
    names = names_for(n, env.SEED)
    U = Universe(names)
    order = sweep.orders(names)[oi]
    bdd = S.new_autoref(order)
    refs, b = sweep.build_all(bdd, U, hold=False)
    fn = {f: bdd._add_int(r) for f, r in refs.items()}
    den = O.Den(bdd, U)
    G = family(U)
    pas = list(partial_assignments(names))
    maps = list(var_maps(names))
    fs = sorted(refs)
    mine = sweep.shard(fs, ns)[si]
    for fu in mine:
        if focus is not None and fu != focus:
            continue
        u = fn[fu]
        sup = U.support(fu)
        try:
            for d in pas:
                want = U.restrict(fu, d)
                r1 = bdd.let(dict(d), u)
                r2 = u.let(**d)
                rep.add('evaluations', 2)
                if den(r1) != want or den(r2) != want:
                    rec('autoref-const', 'autoref let with constants is wrong',
                        dict(task=t[:-1] + (fu,), u=U.fmt(fu), d=d))
                if sup & set(d):
                    rep.add('nontrivial', 2)
            for d in maps:
                want = U.rename(fu, d)
                r1 = bdd.let(dict(d), u)
                r2 = u.let(**d)
                rep.add('evaluations', 2)
                if den(r1) != want or den(r2) != want:
                    rec('autoref-rename', 'autoref let with names is wrong',
                        dict(task=t[:-1] + (fu,), u=U.fmt(fu), d=d))
                if sup & {k for k, v in d.items() if k != v}:
                    rep.add('nontrivial', 2)
            for x, y in itertools.permutations(names, 2):
                for g1 in G:
                    g2 = G[(G.index(g1) * 7 + 3) % len(G)]
                    want = U.compose(fu, {x: g1, y: g2})
                    r1 = bdd.let({x: fn[g1], y: fn[g2]}, u)
                    r2 = u.let(**{x: fn[g1], y: fn[g2]})
                    rep.add('evaluations', 2)
                    if den(r1) != want or den(r2) != want:
                        rec('autoref-compose', 'autoref let with functions is wrong',
                            dict(task=t[:-1] + (fu,), u=U.fmt(fu),
                                 d={x: U.fmt(g1), y: U.fmt(g2)}))
                    if sup & {x, y}:
                        rep.add('nontrivial', 2)
            r1 = r2 = None
        except Violation as e:
            rec('autoref-broken', e.what, dict(task=t[:-1] + (fu,), u=U.fmt(fu)))
        except Exception as e:  # noqa
            rec('autoref-exception:' + type(e).__name__, 'raised %r' % (e,),
                dict(task=t[:-1] + (fu,), u=U.fmt(fu)))
    ext = {}
    for f, x in fn.items():
        ext[abs(x.node)] = ext.get(abs(x.node), 0) + 1
    env.settle()
    try:
        O.check(bdd, ext, U)
        for f, x in fn.items():
            if den(x) != f:
                raise Violation('an operand changed denotation')
    except Violation as e:
        rec('autoref-after:' + e.what, e.what, dict(task=t), **e.detail)
    return rep


def task_wide(t):
    """Functions of three variables embedded at every 3-subset of the levels of a manager with
    10 declared variables: constants, renamings (also to variables outside the support, above,
    between and below it) and single-variable composition."""
    _, nvars, si, ns, focus = t
    rep = run.Report()
    rec = sweep.Rec(rep)
    bdd, decl = sweep.wide_manager(nvars, env.SEED)
    kk = sweep.wide_k(nvars)
    mine = sweep.shard(sweep.wide_subsets(nvars, kk), ns)[si]
    for lv in mine:
        names = tuple(decl[i] for i in lv)
        others = [i for i in range(nvars) if i not in lv]
        between = [i for i in others if lv[0] < i < lv[-1]]
        ex = tuple(dict.fromkeys([decl[others[0]], decl[(between or others)[0]], decl[others[-1]]]))
        U = Universe(names + ex)
        b = sweep.Builder(bdd, U)
        pas = list(partial_assignments(names))
        if kk > 3:
            # very wide manager: the assignments that fix four or five of the five variables
            pas = [d for d in pas if len(d) >= kk - 1]
        rens = []
        for a_ in names:
            for c_ in names + ex:
                if a_ != c_:
                    rens.append({a_: c_})
        rens.append({names[0]: names[1], names[1]: names[0]})
        rens.append({names[0]: ex[0], names[2]: ex[-1]})
        if kk > 3:
            rens.append(dict(zip(names, names[1:] + names[:1])))
            rens.append(dict(zip(names, reversed(names))))
            rens.append(dict(zip(names[:3], ex)))
        G = [U.var(ex[0]), U.var(names[1]) & U.var(ex[-1]), U.full ^ U.var(names[2])]
        for fu in sweep.wide_functions(U, names):
            if focus is not None and sweep.norm([lv, fu]) != sweep.norm(focus):
                continue
            case0 = dict(task=t[:-1] + ([list(lv), fu],), levels=list(lv), u=U.fmt(fu))
            try:
                u = b.verified(fu)
                bdd.incref(u)
                for d in pas:
                    rep.add('evaluations')
                    if b.den(bdd.let(dict(d), u)) != U.restrict(fu, d):
                        rec('wide-const', 'let with constants is wrong in a wide manager',
                            dict(case0, d=d))
                for d in rens:
                    rep.add('evaluations')
                    if b.den(bdd.let(dict(d), u)) != U.rename(fu, d):
                        rec('wide-rename', 'let with names is wrong in a wide manager',
                            dict(case0, d=d))
                for x_ in names:
                    for g in G:
                        rep.add('evaluations')
                        gr = b.verified(g)
                        if b.den(bdd.let({x_: gr}, u)) != U.compose(fu, {x_: g}):
                            rec('wide-compose', 'let with a function is wrong in a wide manager',
                                dict(case0, d={x_: U.fmt(g)}))
                bdd.decref(u)
                if fu not in (0, U.full):
                    rep.add('nontrivial', len(pas) + len(rens) + 9)
            except Violation as e:
                rec('wide-broken', e.what, case0)
            except Exception as e:  # noqa
                rec('wide-exception:' + type(e).__name__, 'raised %r' % (e,), case0)
        bdd.collect_garbage()
        b.reset()
    if si == 0 and focus is None and mine:
        rep.sample(dict(kind='wide manager', declared=nvars, support_levels=list(mine[len(mine) // 2])))
    return rep


def task_reorder(t):
    """Substitution while DYNAMIC REORDERING fires inside the call: the request is forced at the
    k-th node creation and the reordering it triggers ends in a chosen order (every permutation
    of the three variables).  Constants, renamings and functions; dd.bdd and dd.autoref."""
    _, k, si, ns, focus = t
    rep = run.Report()
    rec = sweep.Rec(rep)
    names = names_for(3, env.SEED)
    U = Universe(names)
    m = S.new_bdd({v: i for i, v in enumerate(names)})
    refs, b = sweep.build_all(m, U)
    am = S.autoref_around(m)
    m.configure(reordering=True)
    fs = sorted(refs)
    perms = list(itertools.permutations(names))
    x, y, z = names
    seam = sweep.pick_order_seam()
    if not seam.available():
        rep.note('dd.bdd._request_reordering is absent: reordering cannot be forced')
        return rep
    consts = [{x: True}, {y: False}, {z: True, x: False}, {y: True, z: True}]
    renames = [{x: y}, {z: x}, {x: y, y: x}]
    G = [U.var(y), U.var(x) & U.var(z), U.full ^ U.var(z), U.full]
    mine = sweep.shard(fs, ns)[si]
    with seam:
        for fu in mine:
            if focus is not None and fu != focus:
                continue
            u = refs[fu]
            for pi, perm in enumerate(perms):
                seam.target = {v: i for i, v in enumerate(perm)}
                sel = (fu + pi) % 4
                cases = [('const', consts[sel]), ('rename', renames[sel % 3]),
                         ('compose', {names[sel % 3]: G[(fu + pi) % 3]}),
                         ('compose2', {x: G[sel], z: G[(sel + 1) % 4]}),
                         ('autoref-mixed', {y: G[3], x: G[(sel + 1) % 3]})]
                for kind, d in cases:
                    case = dict(task=t[:-1] + (fu,), u=U.fmt(fu), kind=kind, position=k,
                                d={a_: (U.fmt(v_) if isinstance(v_, int) and not isinstance(
                                    v_, bool) else v_) for a_, v_ in d.items()},
                                order_after=list(perm))
                    try:
                        if getattr(m, '_last_len', None) is None:
                            m.configure(reordering=True)
                        if kind == 'const':
                            want = U.restrict(fu, d)
                            arg = dict(d)
                        elif kind == 'rename':
                            want = U.rename(fu, d)
                            arg = dict(d)
                            if U.support(fu) & (set(d.values()) - set(d)):
                                continue        # target inside the support: not a renaming
                        else:
                            want = U.compose(fu, d)
                            arg = {a_: b(g_) for a_, g_ in d.items()}
                            for r_ in arg.values():
                                m.incref(r_)
                        if kind == 'autoref-mixed':
                            harg = {a_: am._add_int(r_) for a_, r_ in arg.items()}
                            hu = am._add_int(u)
                        seam.arm((k,))
                        try:
                            if kind == 'autoref-mixed':
                                hr = am.let(harg, hu)
                                r = hr.node
                                m.incref(r)
                                del hr
                            else:
                                r = m.let(arg, u)
                        finally:
                            seam.disarm()
                        if kind == 'autoref-mixed':
                            harg.clear()
                            del hu
                        got = O.Den(m, U)(r)
                        if kind == 'autoref-mixed':
                            m.decref(r)
                        if kind.startswith('compose') or kind == 'autoref-mixed':
                            for r_ in arg.values():
                                m.decref(r_)
                        b.reset()
                        rep.add('evaluations')
                        if seam.reorders:
                            rep.add('reordered_inside')
                            rep.add('nontrivial')
                        if got != want:
                            rec('reorder:' + kind, 'let gives another function when dynamic '
                                'reordering fires inside the call', case)
                    except Violation as e:
                        rec('reorder-broken:' + e.what, e.what, case)
                    except Exception as e:  # noqa
                        rec('reorder-exception:%s:%s' % (kind, type(e).__name__),
                            'raised %r' % (e,), case)
    try:
        den = O.Den(m, U)
        for f, r in refs.items():
            if den(r) != f:
                raise Violation('a held operand changed denotation')
        env.settle()
        ext = {}
        for r in refs.values():
            ext[abs(r)] = ext.get(abs(r), 0) + 1
        O.check(m, ext, U)
    except Violation as e:
        rec('reorder-after:' + e.what, e.what, dict(task=t), **e.detail)
    if si == 0 and focus is None:
        rep.sample(dict(kind='let with reordering forced inside', position=k,
                        final_orders='every permutation of 3 variables'))
    return rep


TASKS = dict(cr=task_const_rename, compose=task_compose, autoref=task_autoref, wide=task_wide,
             reorder=task_reorder)


def dispatch(t):
    return TASKS[t[0]](t)


def plan(tier):
    ts = [('wide', 10, si, 16, None) for si in range(16)]
    ts += [('wide', sweep.XWIDE, si, 16, None) for si in range(16)]
    ts += [('reorder', k, si, 8, None) for k in (1, 2) for si in range(8)]
    if tier == 'quick':
        for oi in range(6):
            for ctx in ('K0', 'K1'):
                ts.append(('cr', 3, oi, ctx, 0, 1, None))
            for si in range(2):
                ts.append(('compose', 3, oi, ('K0', 'K1')[oi % 2], (1, 2, '3s'), si, 2, None))
            ts.append(('autoref', 3, oi, 0, 1, None))
    else:
        for oi in range(6):
            for ctx in sweep.CONTEXTS:
                ts.append(('cr', 3, oi, ctx, 0, 1, None))
                for si in range(4):
                    ts.append(('compose', 3, oi, ctx, (1, 2, 3), si, 4, None))
            ts.append(('autoref', 3, oi, 0, 1, None))
        # n = 4: 1 408 substitutions per function; every order, one eighth of the functions per
        # order (a different eighth for each order, so all functions occur in three orders)
        for oi in range(24):
            ts.append(('cr', 4, oi, ('K0', 'K1')[oi % 2], oi % 8, 8, None))
        # n = 4, two simultaneous replacements over G (30 functions): one 64th of the functions
        # per order (a different slice for each order)
        for oi in range(0, 24, 5):
            ts.append(('compose', 4, oi, 'K0', (2,), oi % 64, 64, None))
    return ts


replay = sweep.replay_with_machines(sweep.replay_by_task(dispatch))


def main(tier, t0):
    return sweep.run_driver(
        PROP, tier, t0, plan(tier), dispatch,
        rule=('every function of n named variables x (i) every partial assignment, (ii) every '
              'map from a non-empty subset of names into names (injective or not, incl. swaps '
              'and cycles), (iii) every single-variable replacement by every function of F(n) '
              'and every tuple of 2..3 replacements from the written-out family G; every order; '
              'entry points let / cofactor / rename / compose / autoref let / Function.let; '
              'non-trivial = a substituted variable is in the support (and the substitution is '
              'not the identity); distinct by construction'),
        assumptions=['truth-table model of simultaneous substitution (mc/ref.py compose)',
                     'sub-sweep (iii) for |d|>=2 ranges over family G only (bounded alphabet)'],
        replay_fn=replay,
        machines=__import__('mc.machines', fromlist=['x']).mixed_machines(tier))
