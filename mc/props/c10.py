"""C10 — count, pick, pick_iter, support describe exactly the satisfying assignments."""
from .. import env, run, sweep
from .. import oracle as O
from .. import state as S
from ..oracle import Violation
from ..ref import Universe, names_for

PROP = 'C10'


def _check_picks(U, fu, care, picks, declared):
    """picks: list of dicts. Returns error text or None."""
    sup = U.support(fu)
    must = set(care) if care is not None else set(sup)
    covered = 0
    for a in picks:
        if not isinstance(a, dict):
            return 'pick_iter yielded a non-dict'
        if not must <= set(a):
            return 'an assignment does not mention every care variable'
        if not set(a) <= set(U.names):
            return 'an assignment mentions an unknown variable'
        cm = U.cube_mask(a)
        if cm & ~fu & U.full:
            return 'an assignment does not satisfy the function under every completion'
        if covered & cm:
            return 'two assignments overlap'
        covered |= cm
    if covered != fu:
        return 'the assignments do not cover all models'
    if care is None:
        # exactly the models over the support
        if any(set(a) != sup for a in picks):
            return 'default care set: an assignment is not over exactly the support'
    return None


def task_bdd(t):
    _, n, oi, which, si, ns, focus = t
    rep = run.Report()
    rec = sweep.Rec(rep)
    names = names_for(n, env.SEED)
    U = Universe(names)
    order = sweep.orders(names)[oi]
    which, _, hist = which.partition(':')
    auto = which == 'autoref'
    if hist:
        # a manager with a history: node numbers re-used / nodes rewritten in place
        try:
            bdd, h = sweep.make_history(hist, order, U, None, auto)
        except Violation as v:
            rec('context:' + v.what, v.what, dict(task=t))
            return rep
        refs = h
    elif auto:
        bdd = S.new_autoref(order)
        refs, b = sweep.build_all(bdd, U, hold=False)
        h = {f: bdd._add_int(r) for f, r in refs.items()}
    else:
        bdd = S.new_bdd(order)
        refs, b = sweep.build_all(bdd, U, hold=True)
        h = refs
    cares = [None] + [set(c) for c in sweep.subsets(names)]
    fs = sorted(refs)
    mine = sweep.shard(fs, ns)[si]
    _decoy = sweep.Decoy(names, twin_of=bdd)
    for fu in mine:
        _bad = _decoy.poke()
        if _bad:
            rec('second-manager:' + _bad, _bad, dict(task=t))
        if focus is not None and fu != focus:
            continue
        u = h[fu]
        sup = U.support(fu)
        nm = U.count(fu) >> (U.m - len(sup))   # models over the support
        case = dict(task=t[:-1] + (fu,), u=U.fmt(fu))
        try:
            # support / is_essential
            got = bdd.support(u)
            rep.add('evaluations')
            if set(got) != sup:
                rec('support', 'support is not the set of variables the function depends on',
                    case, got=sorted(got), want=sorted(sup))
            if auto and set(u.support) != sup:
                rec('support', 'Function.support is wrong', case)
            lv = bdd.support(u, as_levels=True)
            if {bdd.var_at_level(i) for i in lv} != sup:
                rec('support-levels', 'support(as_levels=True) is wrong', case)
            if not auto:
                for x in list(names) + ['_undeclared']:
                    rep.add('evaluations')
                    if bool(bdd.is_essential(u, x)) != (x in sup):
                        rec('is_essential', 'is_essential disagrees with the support', case, var=x)
            # count
            rep.add('evaluations')
            if bdd.count(u) != nm:
                rec('count-default', 'count(u) is not the number of models over the support',
                    case, got=bdd.count(u), want=nm)
            if bdd.count(u, nvars=None) != nm or bdd.count(u, nvars=len(sup)) != nm:
                rec('count-keyword', 'count(u, nvars=...) given by keyword is wrong', case)
            if auto:
                if u.count() != nm or u.count(nvars=len(sup) + 1) != 2 * nm:
                    rec('count-method', 'Function.count() is wrong', case)
                p0 = u.pick()
                if (p0 is None) != (fu == 0) or (
                        p0 is not None and (U.cube_mask(p0) & ~fu & U.full or set(p0) != sup)):
                    rec('pick-method', 'Function.pick() without care variables is wrong', case)
            for k in range(0, len(sup) + 4):
                rep.add('evaluations')
                if k < len(sup):
                    try:
                        c = bdd.count(u, k)
                    except Exception:
                        continue
                    rec('count-small-n', 'count accepted fewer variables than the support',
                        case, n=k, got=c)
                else:
                    c = bdd.count(u, k)
                    if auto and u.count(k) != c:
                        rec('count-method', 'Function.count differs from BDD.count', case)
                    if c != nm << (k - len(sup)):
                        rec('count-n', 'count(u, n) is wrong', case, n=k, got=c,
                            want=nm << (k - len(sup)))
            # pick_iter for every care set
            for care in cares:
                rep.add('evaluations')
                picks = list(bdd.pick_iter(u, care_vars=care) if care is not None
                             else bdd.pick_iter(u))
                err = _check_picks(U, fu, care, picks, names)
                if err:
                    rec('pick_iter:' + err, err, dict(case, care=sorted(care) if care is not None
                                                      else None))
                if care is None and len(picks) != bdd.count(u):
                    rec('pick_iter-count', 'default pick_iter does not yield count(u) assignments',
                        case)
                if fu not in (0, U.full):
                    rep.add('nontrivial')
                # pick
                p = bdd.pick(u, care) if care is not None else bdd.pick(u)
                rep.add('evaluations')
                if (p is None) != (fu == 0):
                    rec('pick-none', 'pick is None exactly for false is violated', case)
                elif p is not None:
                    cm = U.cube_mask(p)
                    must = care if care is not None else sup
                    if cm & ~fu & U.full or not set(must) <= set(p):
                        rec('pick-wrong', 'pick returned an assignment that is not a model '
                            'mentioning the care variables', dict(case, pick=p))
                if auto and care is not None:
                    p2 = u.pick(care)
                    if (p2 is None) != (fu == 0):
                        rec('pick-method', 'Function.pick is wrong', case)
            if fu not in (0, U.full):
                rep.add('nontrivial', 3 + len(sup))
        except Violation as e:
            rec('broken', e.what, case)
        except Exception as e:  # noqa
            rec('exception:' + type(e).__name__, 'raised %r' % (e,), case)
    if si == 0 and focus is None:
        f = fs[len(fs) // 3]
        rep.sample(dict(which=which, order=sweep.order_str(order), u=U.fmt(f),
                        checks='support,is_essential,count(n=0..|supp|+3),pick_iter(all care '
                               'sets),pick'))
    return rep


def task_wide(t):
    """Small functions embedded in a WIDE manager: 12 declared variables, every 2- and 3-subset
    of levels as support (gaps between support levels, large level numbers), every function."""
    import itertools
    _, nvars, k, si, ns, focus = t
    rep = run.Report()
    rec = sweep.Rec(rep)
    allnames = ['v%d' % i for i in range(nvars)]
    rot = env.SEED % nvars
    decl = allnames[rot:] + allnames[:rot]          # declaration order
    bdd = S.new_bdd({v: i for i, v in enumerate(decl)})
    subsets = sweep.wide_subsets(nvars, k)
    mine = sweep.shard(subsets, ns)[si]
    for lv in mine:
        names = tuple(decl[i] for i in lv)
        extra = decl[(lv[-1] + 1) % nvars] if (lv[-1] + 1) % nvars not in lv else decl[
            next(i for i in range(nvars) if i not in lv)]
        U = Universe(names + (extra,))
        b = sweep.Builder(bdd, U)
        fs = sweep.wide_functions(U, names)
        for fu in fs:
            if focus is not None and sweep.norm([lv, fu]) != sweep.norm(focus):
                continue
            sup = U.support(fu)
            if len(sup) < 1:
                continue
            case = dict(task=t[:-1] + ([list(lv), fu],), levels=list(lv), u=U.fmt(fu))
            try:
                u = b.verified(fu)
                nm = U.count(fu) >> (U.m - len(sup))
                rep.add('evaluations', 5)
                if set(bdd.support(u)) != sup:
                    rec('wide-support', 'support is wrong in a wide manager', case)
                if bdd.count(u) != nm:
                    rec('wide-count', 'count(u) is wrong in a wide manager', case)
                for n_ in (len(sup), len(sup) + 2, nvars):
                    if bdd.count(u, n_) != nm << (n_ - len(sup)):
                        rec('wide-count-n', 'count(u, n) is wrong in a wide manager', case, n=n_)
                if len(sup) > 1:
                    try:
                        c = bdd.count(u, len(sup) - 1)
                        rec('wide-count-small', 'count accepted fewer variables than the support',
                            case, got=c)
                    except Exception:
                        pass
                for care in (None, set(names), sup | {extra}, {extra}):
                    picks = list(bdd.pick_iter(u, care) if care is not None
                                 else bdd.pick_iter(u))
                    err = _check_picks(U, fu, care, picks, U.names)
                    if err:
                        rec('wide-pick_iter:' + err, err, dict(case, care=sorted(care)
                                                               if care else None))
                    if care is None and len(picks) != nm:
                        rec('wide-pick-count', 'default pick_iter does not yield count(u) '
                            'assignments', case)
                for v in names + (extra, 'zz_undeclared'):
                    if bool(bdd.is_essential(u, v)) != (v in sup):
                        rec('wide-is_essential', 'is_essential is wrong in a wide manager', case)
                if fu not in (0, U.full):
                    rep.add('nontrivial', 5)
            except Violation as e:
                rec('wide-broken:' + e.what, e.what, case)
            except Exception as e:  # noqa
                rec('wide-exception:' + type(e).__name__, 'raised %r' % (e,), case)
        bdd.collect_garbage()
    if si == 0 and focus is None:
        rep.sample(dict(kind='wide manager', declared=nvars, support_levels=list(mine[len(mine) // 2]),
                        functions='all of the %d-variable functions' % k))
    return rep


def task_requery(t):
    """The same queries asked again after the manager changed: every function of three variables
    in a manager that also declares unused variables (on top, in between, at the bottom); all
    queries once (anything the library remembers is now warm), then after each step of a
    sequence of legitimate changes (removing / adding unused variables, swaps, reordering,
    collections) all queries again."""
    _, oi, si, ns, focus = t
    rep = run.Report()
    rec = sweep.Rec(rep)
    names = names_for(3, env.SEED)
    U = Universe(names)
    base = sorted(sweep.orders(names)[oi], key=sweep.orders(names)[oi].get)
    seq = ['_a', base[0], '_b', base[1], base[2], '_c']
    bdd = S.new_bdd({v: i for i, v in enumerate(seq)})
    b = sweep.Builder(bdd, U)
    fs = sweep.shard(list(U.all_functions(names)), ns)[si]
    refs = {}
    for f in fs:
        r = b.verified(f)
        bdd.incref(r)
        refs[f] = r
    import dd.bdd as _bddm

    def rev():
        n_ = len(bdd.vars)
        _bddm.reorder(bdd, {v: n_ - 1 - l for v, l in bdd.vars.items()})
    steps = [('queries only', lambda: None),
             ("undeclare_vars('_a')", lambda: bdd.undeclare_vars('_a')),
             ('swap(0, 1)', lambda: bdd.swap(0, 1)),
             ("undeclare_vars('_b')", lambda: bdd.undeclare_vars('_b')),
             ("add_var('_n')", lambda: bdd.add_var('_n')),
             ('reorder to the reversed order', rev),
             ('collect_garbage()', lambda: bdd.collect_garbage()),
             ("undeclare_vars()", lambda: bdd.undeclare_vars()),
             ('sifting', lambda: _bddm.reorder(bdd)),
             ('queries again', lambda: None)]
    done = []
    for label, step in steps:
        try:
            step()
        except Exception as e:  # noqa
            rec('requery-step:' + label, 'a legitimate change raised %r' % (e,),
                dict(task=t, after=done + [label]))
            break
        done.append(label)
        for f, r in refs.items():
            if focus is not None and f != focus:
                continue
            case = dict(task=t[:-1] + (f,), u=U.fmt(f), after=list(done))
            try:
                rep.add('evaluations')
                O.observe_queries(bdd, U, r, f)
                sup = U.support(f)
                for x in names:
                    if bool(bdd.is_essential(r, x)) != (x in sup):
                        raise Violation('is_essential disagrees with the support (in a history)')
                picks = list(bdd.pick_iter(r))
                err = _check_picks(U, f, None, picks, names)
                if err:
                    raise Violation('pick_iter (in a history): ' + err)
                extra = next((v for v in bdd.vars if v not in names), None)
                if extra is not None:
                    U2 = Universe(names + (extra,))
                    f2 = f | (f << U.N)         # the same function, over one more name
                    err = _check_picks(U2, f2, set(sup) | {extra}, list(
                        bdd.pick_iter(r, set(sup) | {extra})), names + (extra,))
                    if err:
                        raise Violation('pick_iter with an unused care variable (in a history): '
                                        + err)
                if len(done) > 1 and f not in (0, U.full):
                    rep.add('nontrivial')
            except Violation as e:
                rec('requery:' + e.what, e.what, case, **e.detail)
            except Exception as e:  # noqa
                rec('requery-exception:' + type(e).__name__, 'raised %r' % (e,), case)
    if si == 0 and focus is None:
        rep.sample(dict(kind='queries repeated after changes', steps=[l for l, _ in steps]))
    return rep


def dispatch(t):
    if t[0] == 'requery':
        return task_requery(t)
    if t[0] == 'wide':
        return task_wide(t)
    return task_bdd(t)


def plan(tier):
    ts = [('requery', oi, si, 2, None) for oi in range(6) for si in range(2)]
    for si in range(4):
        ts.append(('wide', 12, 2, si, 4, None))
    for si in range(16):
        ts.append(('wide', 12 if tier == 'quick' else 14, 3, si, 16, None))
        ts.append(('wide', sweep.XWIDE, 5, si, 16, None))
    if tier == 'quick':
        for oi in range(6):
            ts.append(('t', 3, oi, 'bdd', 0, 1, None))
            ts.append(('t', 3, oi, 'autoref', 0, 1, None))
        for oi in (0, 23):
            for si in range(16):
                ts.append(('t', 4, oi, 'bdd', si, 16, None))
        for k, oi in enumerate(range(6)):
            ts.append(('t', 3, oi, 'bdd:' + ('K1', 'K2', 'rev')[k % 3], 0, 1, None))
            ts.append(('t', 3, oi, 'autoref:' + ('rev', 'K1', 'K2')[k % 3], 0, 1, None))
    else:
        for oi in range(6):
            for hist in ('K1', 'K2', 'rev'):
                ts.append(('t', 3, oi, 'bdd:' + hist, 0, 1, None))
                ts.append(('t', 3, oi, 'autoref:' + hist, 0, 1, None))
        for oi in (5, 14):
            for si in range(8):
                ts.append(('t', 4, oi, 'bdd:rev', si, 8, None))
        for oi in range(6):
            ts.append(('t', 3, oi, 'bdd', 0, 1, None))
            ts.append(('t', 3, oi, 'autoref', 0, 1, None))
        for oi in range(24):
            for si in range(8):
                ts.append(('t', 4, oi, 'bdd', si, 8, None))
        for oi in (3, 11, 17):
            for si in range(8):
                ts.append(('t', 4, oi, 'autoref', si, 8, None))
    return ts


replay = sweep.replay_by_task(dispatch)


def main(tier, t0):
    return sweep.run_driver(
        PROP, tier, t0, plan(tier), dispatch,
        rule=('every function of n named variables (n=3 all orders; n=4 two orders quick / all '
              '24 thorough), regular and complemented references; support, is_essential for '
              'every declared and one undeclared name, count(u) and count(u, k) for k = '
              '0..|supp|+3, pick_iter for the default and EVERY care subset of the declared '
              'names; WIDE managers: 12-14 declared variables, every 2- and 3-subset of levels as '
              'support with every function over it (gaps and large level numbers); '
              'names, pick; dd.bdd and dd.autoref incl. Function methods; non-trivial = the '
              'function is not constant; distinct by construction'),
        assumptions=['truth-table model (mc/ref.py): models, support, cube masks'],
        replay_fn=replay)
