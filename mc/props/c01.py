"""C01 — connectives and ITE compute exactly the stated truth function.

Wide part: exhaustive operand sweeps against the truth-table model (all pairs and
all ITE triples of F(3), every alias, every order, contexts K0..K3, a sparse
context that creates and frees nodes, the autoref Function operators, F(4) x probes).
Deep part: BFS over histories with every result compared with the model.
"""
import itertools

from .. import env, run, sweep
from .. import oracle as O
from .. import state as S
from ..oracle import Violation
from ..ref import Universe, names_for
from ..explore import bfs
from ..machines import BddMachine

PROP = 'C01'

BINARY = {
    'and': ['and', '/\\', '&', '&&'],
    'or': ['or', '\\/', '|', '||'],
    'xor': ['#', 'xor', '^'],
    'implies': ['=>', '->', 'implies'],
    'equiv': ['<=>', '<->', 'equiv'],
    'diff': ['diff', '-'],
}
UNARY = ['not', '~', '!']
QUANT = {'\\A', 'forall', '\\E', 'exists'}


def _model(U):
    F = U.full
    return {
        'and': lambda a, b: a & b,
        'or': lambda a, b: a | b,
        'xor': lambda a, b: a ^ b,
        'implies': lambda a, b: (F ^ a) | b,
        'equiv': lambda a, b: F ^ (a ^ b),
        'diff': lambda a, b: a & (F ^ b),
    }


def _inv(refs, U):
    inv = {}
    for f, r in refs.items():
        inv[r] = f
        inv[-r] = U.full ^ f
    return inv


_Rec = sweep.Rec


def _setup(n, oi, ctx):
    names = names_for(n, env.SEED)
    U = Universe(names)
    order = sweep.orders(names)[oi]
    m, refs, ext, b = sweep.make_context(ctx, order, U)
    return names, U, order, m, refs, ext, b


def _value(den, inv, r):
    f = inv.get(r)
    if f is None:
        f = den(r)
    return f


def task_pairs(t):
    _, n, oi, ctx, si, ns = t
    rep = run.Report()
    rec = _Rec(rep)
    try:
        names, U, order, m, refs, ext, b = _setup(n, oi, ctx)
    except Violation as v:
        rec('context:' + v.what, v.what, dict(kind='context', n=n, order=oi, ctx=ctx))
        return rep
    inv = _inv(refs, U)
    model = _model(U)
    table = [(sym, model[g]) for g, syms in BINARY.items() for sym in syms]
    fs = sorted(refs)
    mine = sweep.shard(fs, ns)[si]
    den = O.Den(m, U)
    apply_ = m.apply
    passes = 2 if ctx == 'K3' else 1
    F = U.full
    _decoy = sweep.Decoy(names, twin_of=m)
    for p in range(passes):
        for fu in mine:
            _bad = _decoy.poke()
            if _bad:
                rec('second-manager:' + _bad, _bad, dict(kind='context', n=n, order=oi, ctx=ctx))
            u = refs[fu]
            for sym in UNARY:
                try:
                    r = apply_(sym, u)
                    ok = _value(den, inv, r) == F ^ fu
                except Violation as e:
                    ok = False
                except Exception as e:  # noqa
                    ok = False
                rep.add('evaluations')
                if not ok:
                    rec('apply:' + sym, 'unary apply denotes the wrong function',
                        dict(kind='apply', n=n, order=oi, ctx=ctx, op=sym, u=fu))
            nt_u = fu != 0 and fu != F
            for fv in fs:
                v = refs[fv]
                for sym, fn in table:
                    try:
                        r = apply_(sym, u, v)
                        got = inv.get(r)
                        if got is None:
                            got = den(r)
                        ok = got == fn(fu, fv)
                    except Violation:
                        ok = False
                    except Exception:  # noqa
                        ok = False
                    if not ok:
                        rec('apply:' + sym, 'binary apply denotes the wrong function',
                            dict(kind='apply', n=n, order=oi, ctx=ctx, op=sym, u=fu, v=fv))
                rep.add('evaluations', len(table))
                if nt_u and fv != 0 and fv != F and p == 0:
                    rep.add('nontrivial', len(table))
    _final_oracle(rep, rec, m, ext, U, refs, dict(kind='context-after', n=n, order=oi, ctx=ctx))
    if si == 0:
        rep.sample(dict(kind='apply', n=n, order=sweep.order_str(order), ctx=ctx, op='=>',
                        u=U.fmt(fs[len(fs) // 3]), v=U.fmt(fs[len(fs) // 2])))
    return rep


def _final_oracle(rep, rec, m, ext, U, refs, case):
    try:
        den = O.Den(m, U)
        O.check(m, ext, U, den)
        for f, r in refs.items():
            if den(r) != f:
                raise Violation('an operand changed denotation during the sweep')
    except Violation as v:
        rec('after-sweep:' + v.what, v.what, case, **v.detail)


def task_ite(t):
    _, n, oi, ctx, si, ns, vstride = t
    rep = run.Report()
    rec = _Rec(rep)
    try:
        names, U, order, m, refs, ext, b = _setup(n, oi, ctx)
    except Violation as v:
        rec('context:' + v.what, v.what, dict(kind='context', n=n, order=oi, ctx=ctx))
        return rep
    inv = _inv(refs, U)
    fs = sorted(refs)
    mine = sweep.shard(fs, ns)[si]
    den = O.Den(m, U)
    ite = m.ite
    F = U.full
    vs = fs[::vstride]
    passes = 2 if ctx == 'K3' else 1
    items = [(f, refs[f]) for f in fs]
    vitems = [(f, refs[f]) for f in vs]
    cnt = 0
    for p in range(passes):
        for fg in mine:
            g = refs[fg]
            ng = F ^ fg
            for fu, u in items:
                a = fg & fu
                for fv, v in vitems:
                    try:
                        r = ite(g, u, v)
                        got = inv.get(r)
                        if got is None:
                            got = den(r)
                        ok = got == (a | (ng & fv))
                    except Exception:  # noqa
                        ok = False
                    if not ok:
                        rec('ite', 'ite denotes the wrong function',
                            dict(kind='ite', n=n, order=oi, ctx=ctx, g=fg, u=fu, v=fv))
                cnt += len(vitems)
            # bound the memory of the result cache
            if len(m._ite_table) > 2_000_000 and ctx != 'K3':
                m.collect_garbage()
    rep.add('evaluations', cnt)
    nt = sum(1 for f in mine if f not in (0, F)) * (len(fs) - 2) * sum(
        1 for f in vs if f not in (0, F))
    rep.add('nontrivial', nt)
    _final_oracle(rep, rec, m, ext, U, refs, dict(kind='context-after', n=n, order=oi, ctx=ctx))
    if si == 0:
        rep.sample(dict(kind='ite', n=n, order=sweep.order_str(order), ctx=ctx,
                        g=U.fmt(fs[5]), u=U.fmt(fs[100 % len(fs)]), v=U.fmt(fs[77 % len(fs)])))
    return rep


def task_sparse(t):
    """Operands built on demand in a small manager; results create nodes; periodic collection."""
    _, n, oi, si, ns = t
    rep = run.Report()
    rec = _Rec(rep)
    names = names_for(n, env.SEED)
    U = Universe(names)
    order = sweep.orders(names)[oi]
    model = _model(U)
    one = [(syms[(si + oi) % len(syms)], model[g]) for g, syms in BINARY.items()]
    fs = list(range(1 << U.N))
    mine = sweep.shard(fs, ns)[si]
    F = U.full
    for fu in mine:
        m = S.new_bdd(order)
        b = sweep.Builder(m, U)
        u = b.verified(fu)
        m.incref(u)
        for k, fv in enumerate(fs):
            try:
                v = b.verified(fv)
                for sym, fn in one:
                    r = m.apply(sym, u, v)
                    if b.den(r) != fn(fu, fv):
                        raise Violation('binary apply denotes the wrong function (sparse manager)')
                r = m.ite(v, u, -v)
                if b.den(r) != U.ite(fv, fu, F ^ fv):
                    raise Violation('ite denotes the wrong function (sparse manager)')
            except Violation as e:
                rec('sparse:' + e.what, e.what,
                    dict(kind='sparse', n=n, order=oi, u=fu, upto_v=fv))
            except Exception as e:  # noqa
                rec('sparse:exception', 'exception %r' % (e,),
                    dict(kind='sparse', n=n, order=oi, u=fu, upto_v=fv))
            rep.add('evaluations', len(one) + 1)
            if fu not in (0, F) and fv not in (0, F):
                rep.add('nontrivial', len(one) + 1)
            if k % 7 == 6:
                m.collect_garbage()
                b.reset()
                if b.den(u) != fu:
                    rec('sparse:operand-changed', 'held operand changed after collection',
                        dict(kind='sparse', n=n, order=oi, u=fu, upto_v=fv))
        try:
            O.check(m, {abs(u): 1} if abs(u) != 1 else {1: 1}, U)
        except Violation as e:
            rec('sparse-after:' + e.what, e.what, dict(kind='sparse', n=n, order=oi, u=fu,
                                                        upto_v=fs[-1]))
    return rep


def task_autoref(t):
    """Function operators ~ & | implies equiv <= < == != of dd.autoref."""
    _, n, oi, si, ns = t
    rep = run.Report()
    rec = _Rec(rep)
    names = names_for(n, env.SEED)
    U = Universe(names)
    order = sweep.orders(names)[oi]
    bdd = S.new_autoref(order)
    refs, b = sweep.build_all(bdd, U, hold=False)
    fn = {f: bdd._add_int(r) for f, r in refs.items()}
    inv = _inv(refs, U)
    den = O.Den(bdd, U)
    fs = sorted(refs)
    mine = sweep.shard(fs, ns)[si]
    F = U.full

    def val(x):
        g = inv.get(x.node)
        return den(x) if g is None else g
    for fu in mine:
        u = fn[fu]
        for fv in fs:
            v = fn[fv]
            try:
                checks = (
                    ('&', val(u & v) == fu & fv),
                    ('|', val(u | v) == fu | fv),
                    ('implies', val(u.implies(v)) == (F ^ fu) | fv),
                    ('equiv', val(u.equiv(v)) == F ^ fu ^ fv),
                    ('<=', (u <= v) == (fu & (F ^ fv) == 0)),
                    ('<', (u < v) == (fu & (F ^ fv) == 0 and fu != fv)),
                    ('==', (u == v) == (fu == fv)),
                    ('!=', (u != v) == (fu != fv)),
                    ('~', val(~u) == F ^ fu),
                )
            except Exception as e:  # noqa
                checks = (('exception:' + type(e).__name__, False),)
            for name, ok in checks:
                if not ok:
                    rec('Function:' + name, 'Function operator %s is wrong' % name,
                        dict(kind='autoref', n=n, order=oi, op=name, u=fu, v=fv))
            rep.add('evaluations', 9)
            if fu not in (0, F) and fv not in (0, F):
                rep.add('nontrivial', 9)
    # counts: each function holds exactly one reference through its Function object
    ext = {}
    for f, x in fn.items():
        ext[abs(x.node)] = ext.get(abs(x.node), 0) + 1
    env.settle()
    try:
        O.check(bdd, ext, U)
    except Violation as e:
        rec('autoref-after:' + e.what, e.what, dict(kind='autoref-after', n=n, order=oi))
    if si == 0:
        rep.sample(dict(kind='autoref', n=n, order=sweep.order_str(order), op='<=',
                        u=U.fmt(fs[20]), v=U.fmt(fs[60])))
    return rep


def probes4(U):
    """Second operands for the n = 4 sweep: constants, literals, 2-variable functions, majority."""
    X = [U.var(n) for n in U.names]
    F = U.full
    ps = [0, F] + X + [F ^ x for x in X]
    for i, j in itertools.combinations(range(4), 2):
        ps += [X[i] & X[j], X[i] ^ X[j]]
    ps.append((X[0] & X[1]) | (X[1] & X[2]) | (X[0] & X[2]))
    ps.append(X[0] ^ X[1] ^ X[2] ^ X[3])
    return ps


def task_n4(t):
    _, oi, si, ns = t
    rep = run.Report()
    rec = _Rec(rep)
    names = names_for(4, env.SEED)
    U = Universe(names)
    order = sweep.orders(names)[oi]
    m = S.new_bdd(order)
    b = sweep.Builder(m, U)
    model = _model(U)
    one = [(syms[oi % len(syms)], model[g], g) for g, syms in BINARY.items()]
    ps = probes4(U)
    prefs = []
    for f in ps:
        r = b.verified(f)
        m.incref(r)
        prefs.append((f, r))
    F = U.full
    mine = sweep.shard(range(1 << U.N), ns)[si]
    for k, fu in enumerate(mine):
        try:
            u = b.verified(fu)
            m.incref(u)
            for fv, v in prefs:
                for sym, fn, g in one:
                    r = m.apply(sym, u, v)
                    if b.den(r) != fn(fu, fv):
                        raise Violation('binary apply denotes the wrong function (n=4)', op=sym,
                                        v=fv)
                    r = m.apply(sym, v, u)
                    if b.den(r) != fn(fv, fu):
                        raise Violation('binary apply denotes the wrong function (n=4)', op=sym,
                                        v=fv)
                r = m.ite(v, u, -u)
                if b.den(r) != U.ite(fv, fu, F ^ fu):
                    raise Violation('ite denotes the wrong function (n=4)', v=fv)
            m.decref(u)
        except Violation as e:
            rec('n4:' + e.what, e.what, dict(kind='n4', order=oi, u=fu, **e.detail))
        except Exception as e:  # noqa
            rec('n4:exception', 'exception %r' % (e,), dict(kind='n4', order=oi, u=fu))
        rep.add('evaluations', len(prefs) * (2 * len(one) + 1))
        if fu not in (0, F):
            rep.add('nontrivial', (len(prefs) - 2) * (2 * len(one) + 1))
        if k % 64 == 63:
            m.collect_garbage()
            b.reset()
    return rep


def task_wide(t):
    """Operands with DIFFERENT small supports inside a manager with 8 declared variables:
    u over every 2-subset A of the levels, v over every 2-subset B (interleaving, nested,
    disjoint, equal), all 16 x 16 functions, every connective and ite."""
    _, si, ns, focus = t
    rep = run.Report()
    rec = _Rec(rep)
    if t[0] == 'xwide':
        # very wide manager: supports of five levels out of 40, some of them >= 32
        nvars = sweep.XWIDE
        bdd, decl = sweep.wide_manager(nvars, env.SEED)
        subs = sweep.wide_subsets(nvars, 5)
        pairs = [(a, subs[(37 * i + 11) % len(subs)]) for i, a in enumerate(subs)]
    else:
        nvars = 8
        bdd, decl = sweep.wide_manager(nvars, env.SEED)
        subs = sweep.wide_subsets(nvars, 2)
        pairs = [(a, b) for a in subs for b in subs]
    mine = sweep.shard(pairs, ns)[si]
    for k, (A, B) in enumerate(mine):
        if focus is not None and sweep.norm([A, B]) != sweep.norm(focus):
            continue
        na = tuple(decl[i] for i in A)
        nb = tuple(decl[i] for i in B)
        U = Universe(tuple(dict.fromkeys(na + nb)))
        model = _model(U)
        one = [(syms[k % len(syms)], model[g]) for g, syms in BINARY.items()]
        b = sweep.Builder(bdd, U)
        fa_ = sweep.wide_functions(U, na)
        fb_ = sweep.wide_functions(U, nb)
        F = U.full
        case = dict(kind='wide', task=t[:-1] + ([list(A), list(B)],), A=list(A), B=list(B))
        try:
            for fu in fa_:
                u = b.verified(fu)
                bdd.incref(u)
                for fv in fb_:
                    v = b.verified(fv)
                    for sym, fn in one:
                        if b.den(bdd.apply(sym, u, v)) != fn(fu, fv):
                            rec('wide:' + sym, 'apply is wrong for operands with different '
                                'supports in a wide manager', dict(case, op=sym, u=U.fmt(fu),
                                                                   v=U.fmt(fv)))
                    if b.den(bdd.ite(v, u, -u)) != U.ite(fv, fu, F ^ fu):
                        rec('wide:ite', 'ite is wrong in a wide manager',
                            dict(case, u=U.fmt(fu), v=U.fmt(fv)))
                    rep.add('evaluations', len(one) + 1)
                    if fu not in (0, F) and fv not in (0, F):
                        rep.add('nontrivial', len(one) + 1)
                bdd.decref(u)
        except Violation as e:
            rec('wide-broken:' + e.what, e.what, case)
        except Exception as e:  # noqa
            rec('wide-exception:' + type(e).__name__, 'raised %r' % (e,), case)
        if k % 16 == 15:
            bdd.collect_garbage()
    if si == 0 and focus is None:
        rep.sample(dict(kind='wide manager', declared=nvars, A=list(mine[3][0]), B=list(mine[3][1])))
    return rep


def task_chain(t):
    """A DEEP operand: the conjunction of N variables (one node per level).  The pinned code
    recurses once per level in ite/apply and handles about 980 levels under the default
    recursion limit; N = 400 must work (it fails only if the recursion needs more than about
    2.4 Python frames per level).  Results are evaluated by walking single assignments."""
    _, N, _f = t
    rep = run.Report()
    rec = _Rec(rep)
    case = dict(kind='chain', task=t, levels=N)
    try:
        m = S.new_bdd({'v%d' % i: i for i in range(N)})
        c = 1
        for i in reversed(range(N)):
            c = m.find_or_add(i, -1, c)
        m.incref(c)

        def value(u, falses):
            """Value of u when every variable is true except those at the levels in `falses`."""
            neg = False
            while abs(u) != 1:
                if u < 0:
                    neg = not neg
                i, lo, hi = m._succ[abs(u)]
                u = lo if i in falses else hi
            return (u == 1) != neg
        probes = [set(), {0}, {N - 1}, {N // 2}, {0, N - 1}, {1}]
        x0, xl, xm = m.var('v0'), m.var('v%d' % (N - 1)), m.var('v%d' % (N // 2))
        cases = [
            ('and', lambda: m.apply('and', c, xl), lambda F: not F),
            ('and-mid', lambda: m.apply('/\\', xm, c), lambda F: not F),
            ('or', lambda: m.apply('or', c, -x0), lambda F: (not F) or (0 in F)),
            ('xor', lambda: m.apply('xor', c, x0), lambda F: (not F) != (0 not in F)),
            ('implies', lambda: m.apply('=>', c, xl), lambda F: bool(F) or (N - 1 not in F)),
            ('equiv', lambda: m.apply('<=>', c, c), lambda F: True),
            ('diff', lambda: m.apply('diff', xm, c), lambda F: (N // 2 not in F) and bool(F)),
            ('ite', lambda: m.ite(c, x0, -xl), lambda F: (0 not in F) if not F else (N - 1 in F)),
            ('not', lambda: m.apply('not', c), lambda F: bool(F)),
        ]
        for name, call, want in cases:
            rep.add('evaluations')
            rep.add('nontrivial')
            try:
                r = call()
            except RecursionError as e:
                rec('chain-recursion:' + name, '%s on an operand %d levels deep raised '
                    'RecursionError (the pinned code handles about 980 levels)' % (name, N), case)
                continue
            for F in probes:
                if value(r, F) != bool(want(F)):
                    rec('chain:' + name, '%s is wrong on a deep operand' % name,
                        dict(case, op=name, falses=sorted(F)))
                    break
        if m.apply('and', c, xl) != c:
            rec('chain-canonical', 'c /\\ (its last variable) is not c itself', case)
    except Violation as e:
        rec('chain-broken:' + e.what, e.what, case, **e.detail)
    except Exception as e:  # noqa
        rec('chain-exception:' + type(e).__name__, 'raised %r' % (e,), case)
    rep.sample(dict(kind='deep chain', levels=N))
    return rep


def task_reorder(t):
    """Connectives and ite while DYNAMIC REORDERING fires inside the call: a request forced at
    the k-th node creation, the reordering ending in a chosen order (the permutations of the
    three variables rotate with the operands); a sparse manager (only the operands are held),
    so that results really create nodes."""
    import itertools
    _, k, si, ns, focus = t
    rep = run.Report()
    rec = _Rec(rep)
    names = names_for(3, env.SEED)
    U = Universe(names)
    model = _model(U)
    perms = list(itertools.permutations(names))
    seam = sweep.pick_order_seam()
    if not seam.available():
        rep.note('dd.bdd._request_reordering is absent: reordering cannot be forced')
        return rep
    fs = list(range(1 << U.N))
    mine = sweep.shard(fs, ns)[si]
    ops = [(g, syms[0]) for g, syms in BINARY.items()] + [('ite', 'ite')]
    with seam:
        for fu in mine:
            if focus is not None and fu != focus[0]:
                continue
            for fv in fs[(fu * 7) % 5::5]:
                if focus is not None and fv != focus[1]:
                    continue
                pi = (fu + 3 * fv) % len(perms)
                g, sym = ops[(fu + fv) % len(ops)]
                case = dict(kind='reorder', task=t[:-1] + ([fu, fv],), op=sym, u=U.fmt(fu),
                            v=U.fmt(fv), position=k, order_after=list(perms[pi]))
                try:
                    m = S.new_bdd({v_: i for i, v_ in enumerate(perms[(pi + 1) % len(perms)])})
                    b = sweep.Builder(m, U)
                    u, v = b.verified(fu), b.verified(fv)
                    m.incref(u)
                    m.incref(v)
                    m.configure(reordering=True)
                    seam.target = {v_: i for i, v_ in enumerate(perms[pi])}
                    seam.arm((k,))
                    try:
                        if g == 'ite':
                            r = m.ite(u, v, -u)
                            want = U.ite(fu, fv, U.full ^ fu)
                        else:
                            r = m.apply(sym, u, v)
                            want = model[g](fu, fv)
                    finally:
                        seam.disarm()
                    rep.add('evaluations')
                    if seam.reorders:
                        rep.add('reordered_inside')
                        rep.add('nontrivial')
                    den = O.Den(m, U)
                    if den(r) != want:
                        rec('reorder:' + sym, '%s gives another function when dynamic reordering '
                            'fires inside the call' % sym, case)
                    if den(u) != fu or den(v) != fv:
                        rec('reorder-operand', 'an operand changed when reordering fired', case)
                    ext = {}
                    for x in (u, v):
                        ext[abs(x)] = ext.get(abs(x), 0) + 1
                    m.incref(r)
                    ext[abs(r)] = ext.get(abs(r), 0) + 1
                    O.check(m, ext, U)
                except Violation as e:
                    rec('reorder-broken:' + e.what, e.what, case, **e.detail)
                except Exception as e:  # noqa
                    rec('reorder-exception:' + type(e).__name__, 'raised %r' % (e,), case)
    if si == 0 and focus is None:
        rep.sample(dict(kind='connectives with reordering forced inside', position=k))
    return rep


TASKS = dict(pairs=task_pairs, ite=task_ite, sparse=task_sparse, autoref=task_autoref,
             reorder=task_reorder, chain=task_chain,
             n4=task_n4, wide=task_wide, xwide=task_wide)


def _dispatch(t):
    return TASKS[t[0]](t)


def plan(tier):
    ts = [('wide', si, 16, None) for si in range(16)]
    ts += [('xwide', si, 16, None) for si in range(16)]
    ts += [('reorder', k, si, 8, None) for k in (1, 2) for si in range(8)]
    ts += [('chain', 400, None)]
    n = 3
    no = 6
    if tier == 'quick':
        for oi in range(no):
            for ctx in ('K0', 'K1'):
                for si in range(4):
                    ts.append(('pairs', n, oi, ctx, si, 4))
            # ITE: all g, all u, every 16th v (exhaustive over n = 2 below)
            for si in range(4):
                ts.append(('ite', n, oi, ('K0', 'K1', 'K2', 'K3')[oi % 4], si, 4, 16))
            ts.append(('autoref', n, oi, 0, 1))
            ts.append(('sparse', n, oi, oi, 6))
        for oi in range(2):
            for ctx in sweep.CONTEXTS:
                ts.append(('pairs', 2, oi, ctx, 0, 1))
                ts.append(('ite', 2, oi, ctx, 0, 1, 1))
    else:
        for oi in range(no):
            for ctx in sweep.CONTEXTS:
                for si in range(4):
                    ts.append(('pairs', n, oi, ctx, si, 4))
                for si in range(16):
                    ts.append(('ite', n, oi, ctx, si, 16, 1))
            for si in range(2):
                ts.append(('autoref', n, oi, si, 2))
            for si in range(6):
                ts.append(('sparse', n, oi, si, 6))
        for oi in range(2):
            for ctx in sweep.CONTEXTS:
                ts.append(('pairs', 2, oi, ctx, 0, 1))
                ts.append(('ite', 2, oi, ctx, 0, 1, 1))
        for oi in range(24):
            for si in range(8):
                ts.append(('n4', oi, si, 8))
    return ts


def deep_machines(tier):
    ops6 = ('and', 'or', 'xor', 'implies', 'equiv', 'diff')
    a = dict(names=('x', 'y'), max_handles=3, max_ext=1, ops=ops6, with_foa=False,
             seeds=('fresh', 'used', 'swapped', 'warm'))
    b3 = dict(names=('x', 'y', 'z'), max_handles=2, max_ext=1, ops=('and', 'xor', 'implies'),
              with_foa=False, with_ite=False, with_twin=True, seeds=('fresh', 'used', 'warm'))
    narrow = dict(names=('x', 'y'), max_handles=2, max_ext=1, ops=('and', 'xor', 'implies'),
                  with_foa=False, with_ite=False, seeds=('fresh', 'used', 'warm'))
    big6 = dict(names=('x', 'y', 'z', 'w', 'v', 'u'), max_handles=3, max_ext=1,
                ops=('and', 'or', 'xor', 'implies', 'equiv', 'diff'), with_foa=False,
                with_refops=False, seeds=('big',))
    # a declared spare variable that `undeclare_vars` removes in the middle of a history
    spare = dict(names=('x', 'y'), max_handles=3, max_ext=1, ops=('or', 'and'), with_foa=False,
                 with_ite=False, with_swap=False, with_reorder=False, with_spare=True,
                 with_refops=False,
                 seeds=('warm', 'used'))
    pl = [('ops2', a, 3), ('ops3', b3, 4), ('big6', big6, 2),
          ('ops2-spare', spare, 4)] if tier == 'quick' else [
        ('big6', big6, 3), ('ops2-spare', dict(spare, seeds=('warm', 'used', 'swapped', 'fresh')), 4),
        ('ops2', a, 3), ('ops2-narrow', narrow, 6), ('ops3', b3, 5)]
    out = []
    for label, kw, depth in pl:
        kw = dict(kw)
        mm = BddMachine(kw.pop('names'), **kw)
        mm.name = 'bdd-history/' + label
        out.append((mm, depth))
    return out


def check_vocabulary(rep):
    """Every documented symbol is accepted; report (not alarm) symbols we do not know."""
    import dd._abc
    known = set(UNARY) | {'ite'} | QUANT | {s for v in BINARY.values() for s in v}
    lib = set(dd._abc.BDD_OPERATOR_SYMBOLS)
    extra = lib - known
    if extra:
        rep.note('library vocabulary has symbols outside the checked table: %s' % sorted(extra))
    rep.sections['vocabulary_checked'] = sorted(known - QUANT)


def replay(case):
    kind = case.get('kind')
    if kind is None and 'task' in case and 'trace' not in case:
        # a generic report (exception escaping from the library, task set-up, time limit)
        return sweep.replay_by_task(_dispatch)(case)
    if 'trace' in case:
        m = BddMachine(tuple(case['names']), max_handles=9, max_ext=9)
        return m.replay(case)
    if kind in ('context', 'context-after', 'autoref-after'):
        rep = _rerun_task(case)
        return rep
    if kind in ('apply', 'ite'):
        n, oi, ctx = case['n'], case['order'], case['ctx']
        try:
            names, U, order, m, refs, ext, b = _setup(n, oi, ctx)
            den = O.Den(m, U)
            passes = 2 if ctx == 'K3' else 1
            for p in range(passes):
                if kind == 'ite':
                    r = m.ite(refs[case['g']], refs[case['u']], refs[case['v']])
                    want = U.ite(case['g'], case['u'], case['v'])
                elif 'v' in case:
                    g = next(g for g, syms in BINARY.items() if case['op'] in syms)
                    r = m.apply(case['op'], refs[case['u']], refs[case['v']])
                    want = _model(U)[g](case['u'], case['v'])
                else:
                    r = m.apply(case['op'], refs[case['u']])
                    want = U.full ^ case['u']
                if den(r) != want:
                    return 'result denotes %s, expected %s' % (U.fmt(den(r)), U.fmt(want))
        except Violation as v:
            return v.what
        except Exception as e:  # noqa
            return 'exception %r' % (e,)
        # the single call in a fresh context may not reproduce a history-dependent failure:
        # fall back to re-running the slice that found it
        return _rerun_task(case)
    return _rerun_task(case)


def _rerun_task(case):
    kind = case['kind']
    if kind in ('apply', 'context', 'context-after'):
        t = ('pairs', case['n'], case['order'], case['ctx'], 0, 1)
    elif kind == 'ite':
        t = ('ite', case['n'], case['order'], case['ctx'], 0, 1, 1)
    elif kind == 'sparse':
        rep = task_sparse_single(case)
        return rep
    elif kind in ('autoref', 'autoref-after'):
        t = ('autoref', case['n'], case['order'], 0, 1)
    elif kind == 'n4':
        t = ('n4', case['order'], 0, 1)
    elif kind in ('wide', 'reorder', 'chain'):
        t = sweep._tuplify(case['task'])
    else:
        return None
    rep = _dispatch(t)
    if rep.violations:
        return rep.violations[0]['what']
    if kind == 'wide' and t[-1] is not None:
        # the failure may depend on what the slice did before this case: the whole slice
        rep = _dispatch(t[:-1] + (None,))
        if rep.violations:
            return rep.violations[0]['what']
    return None


def task_sparse_single(case):
    ns = 1 << (1 << case['n'])
    rep = task_sparse(('sparse', case['n'], case['order'], case['u'], ns))
    if rep.violations:
        return rep.violations[0]['what']
    # alias rotation depends on the slice index: try all slices' alias choices for this u
    return None


def main(tier, t0):
    rep = run.Report()
    check_vocabulary(rep)
    run.pmerge(_dispatch, plan(tier), rep)
    run.close_pool()
    deep = dict(states=0, transitions=0, validated=0)
    bounds = {}
    for mach, depth in deep_machines(tier):
        r = run.Report()
        res = bfs(mach, depth, r)
        run.close_pool()
        for v in r.violations:
            v['case']['names'] = list(mach.names)
            v['case']['kind'] = 'trace'
        for s in r.samples:
            s['names'] = list(mach.names)
        rep.merge(r)
        for k in deep:
            deep[k] += res[k]
        bounds[mach.name] = dict(depth_completed=res['completed_depth'],
                                 states_per_layer=res['layers'])
    ev = rep.counts.get('evaluations', 0)
    cov = dict(
        evaluations=ev + deep['transitions'],
        distinct_nontrivial=rep.counts.get('nontrivial', 0),
        rule=('operands enumerated without repetition from the complete set of functions of n '
              'named variables (n = 2, 3; n = 4 against a written-out probe set), per order, '
              'context (K0 fresh, K1 half released+collected+rebuilt, K2 swapped there and '
              'back, K3 warm cache second pass), operator alias; a case is non-trivial when no '
              'operand is a constant; distinct by construction of the enumeration'),
        exhaustive=True,
        states=deep['states'], transitions=deep['transitions'],
        traces_validated_against_impl=deep['validated'],
        history_bounds=bounds,
        tasks=len(plan(tier)),
        explanation=('wide: sweeps listed in `counters`; deep: BFS over histories where every '
                     'operation result and every held handle is compared with the model'))
    return run.finish(PROP, 'exploration', tier, rep, t0, cov,
                      assumptions=['truth-table reference model mc/ref.py; denotation walker '
                                   'mc/oracle.py reads the node table only'],
                      replay_fn=replay)
