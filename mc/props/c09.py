"""C09 — dynamic reordering is invisible: same results wherever it fires.

Deviation-bounded schedule enumeration. The only scheduling freedom in dd is WHICH
node-creation request raises the reordering signal. For every operation of the
alphabet, started from a freshly rebuilt scenario:
  0 deviations : reordering enabled, never fires        (counts the K requests)
  1 deviation  : forced firing at each position k = 1..K+2
  natural      : the library's own threshold set so that it first succeeds at every
                 manager size L from the current size to the peak size + 1, and
                 configure(reordering=True) with REORDER_STARTS lowered
  2 deviations : every (k1, k2) over ordered pairs of operations (the second starts in
                 the state the first left, i.e. after a real reordering)
The forced seam wraps dd.bdd._request_reordering, forces the threshold comparison for
that one call and DELEGATES to the library's own function (which raises its own signal
and keeps every guard the tree has). The wrapper never raises by itself.
"""
import itertools
import os

from .. import env, run, sweep
from .. import oracle as O
from .. import state as S
from ..oracle import Violation
from ..ref import Universe

import dd.bdd as _bdd
import dd.autoref as _autoref
import dd._copy as _copy

PROP = 'C09'

POOLS = [('x', 'xp', 'y', 'yp'), ('a', "a'", 'b', "b'"), ('p0', 'p1', 'q0', 'q1')]


def NAMES():
    return POOLS[env.SEED % len(POOLS)]


def ORDERS():
    x, xp, y, yp = NAMES()
    seqs = [(x, xp, y, yp), (xp, x, yp, y), (y, yp, x, xp), (x, y, xp, yp)]
    return [{v: i for i, v in enumerate(s)} for s in seqs]


def family(U):
    x, xp, y, yp = (U.var(n) for n in U.names)
    F = U.full
    return [
        x, F ^ y, x & y, x ^ yp, (x & xp) | (y & yp), x ^ xp ^ y ^ yp,
        (x | y) & (xp | yp), (F ^ (x ^ xp)) & (F ^ (y ^ yp)), (x & (F ^ xp)) | y,
        (x & y) | (y & xp) | (x & xp), (x & y) | ((F ^ x) & yp), xp | yp,
    ]


# ------------------------------------------------------------------ the seam

class Seam:
    """Counting wrapper around dd.bdd._request_reordering (resolved at call time)."""

    def __init__(self):
        self.orig = getattr(_bdd, '_request_reordering', None)
        self.orig_reorder = getattr(_bdd, 'reorder', None)
        self.count = 0
        self.fire = frozenset()
        self.peak = 0
        self.reorders = 0
        self.active = False
        # None: the library's own sifting decides the final order; 'reverse' / 'rotate': the
        # reordering triggered by a request ENDS IN that permutation of the current order
        # (the heuristic is free to choose any order, so every choice must be harmless)
        self.target_mode = None

    def available(self):
        return self.orig is not None

    def _request(self, bdd):
        if not self.active:
            return self.orig(bdd)
        self.count += 1
        n = len(bdd)
        if n > self.peak:
            self.peak = n
        if self.count in self.fire and getattr(bdd, '_last_len', None) is not None:
            saved = bdd._last_len
            bdd._last_len = 0
            try:
                return self.orig(bdd)
            finally:
                # the library's retry wrapper overwrites the threshold if the signal was raised
                if bdd._last_len == 0:
                    bdd._last_len = saved
        return self.orig(bdd)

    def _reorder(self, bdd, *a, **kw):
        if self.active:
            self.reorders += 1
            if self.target_mode and not a and not kw and len(bdd.vars) > 1:
                n = len(bdd.vars)
                if self.target_mode == 'reverse':
                    tgt = {v: n - 1 - l for v, l in bdd.vars.items()}
                else:
                    tgt = {v: (l + 1) % n for v, l in bdd.vars.items()}
                return self.orig_reorder(bdd, tgt)
        return self.orig_reorder(bdd, *a, **kw)

    def __enter__(self):
        _bdd._request_reordering = self._request
        _bdd.reorder = self._reorder
        return self

    def __exit__(self, *exc):
        _bdd._request_reordering = self.orig
        _bdd.reorder = self.orig_reorder
        return False

    def arm(self, fire):
        self.count = 0
        self.fire = frozenset(fire)
        self.peak = 0
        self.reorders = 0
        self.active = True

    def disarm(self):
        self.active = False


# ------------------------------------------------------------------ scenario

_files = {}


def _source(U):
    """A second manager (other order) holding the family; files dumped from it (per process)."""
    key = (os.getpid(), U.names)
    if key in _files:
        return _files[key]
    env.scratch_dir()
    names = U.names
    src = S.new_autoref({v: i for i, v in enumerate(reversed(names))})
    b = sweep.Builder(src, U)
    G = family(U)
    hs = [src._add_int(b.verified(f)) for f in G]
    files = {}
    for i, h in enumerate(hs):
        fp = os.path.abspath('c09-%d-%d.p' % (os.getpid(), i))
        fj = os.path.abspath('c09-%d-%d.json' % (os.getpid(), i))
        src.dump(fp, roots=[h])
        src.dump(fj, roots={'r': h, 's': hs[(i + 5) % len(hs)]})
        files[i] = (fp, fj)
    _files[key] = (src, hs, files)
    return _files[key]


class Scenario:
    """Freshly built state: a manager with the family held, bystanders and some garbage."""

    def __init__(self, oi, auto=True):
        self.names = NAMES()
        self.U = U = Universe(self.names)
        self.order = ORDERS()[oi]
        self.auto = auto
        self.bdd = S.new_autoref(self.order)
        self.raw = self.bdd._bdd
        b = sweep.Builder(self.raw, U)
        self.G = family(U)
        if auto:
            self.h = [self.bdd._add_int(b.verified(f)) for f in self.G]
        else:
            self.h = []
            for f in self.G:
                r = b.verified(f)
                self.raw.incref(r)
                self.h.append(r)
        self.masks = list(self.G)
        # garbage: built, never referenced
        x, xp, y, yp = (U.var(n) for n in self.names)
        for f in (x & yp, (x ^ y) & xp, (xp & yp) | x):
            b(f)
        self.extra = []      # results of earlier operations kept alive: (handle, mask)
        self.src, self.src_h, self.files = _source(U)

    def enable(self, last_len=10 ** 9):
        self.bdd.configure(reordering=True)
        if last_len is not None:
            self.raw._last_len = last_len

    def ledger(self):
        ext = {}
        seen = set()
        for h in self.h + [e[0] for e in self.extra]:
            if not isinstance(h, int):
                if id(h) in seen:
                    continue      # one Function object = one reference
                seen.add(id(h))
            n = abs(O.node_of(h))
            ext[n] = ext.get(n, 0) + 1
        return ext

    def observe(self, ids0):
        """Invariant part of the oracle: handles, counts, order views, configuration."""
        env.settle()
        U = self.U
        den = O.Den(self.raw, U)
        for i, (h, f) in enumerate(zip(self.h, self.masks)):
            if den(h) != f:
                raise Violation('a live reference changed denotation', handle=i)
            if ids0 is not None and O.node_of(h) != ids0[i]:
                raise Violation('a live reference changed its integer', handle=i)
        for h, f in self.extra:
            if den(h) != f:
                raise Violation('an earlier result changed denotation')
        O.check(self.raw, self.ledger(), U, den)
        cfg = self.bdd.configure()
        if not cfg.get('reordering'):
            raise Violation('dynamic reordering is no longer enabled after the operation')


# ------------------------------------------------------------------ operations

def _ops():
    """name -> (callable(sc, i, j) -> result, expected(U, sc, i, j) -> mask or other)"""
    ops = {}

    def reg(name, call, want, kind='ref'):
        ops[name] = (call, want, kind)

    def H(sc, i):
        return sc.h[i % len(sc.h)]

    def M(sc, i):
        return sc.masks[i % len(sc.masks)]
    bins = [('and', '/\\'), ('or', '||'), ('xor', '#'), ('implies', '=>'), ('equiv', '<->'),
            ('diff', '-')]
    for g, sym in bins:
        reg('apply:' + g,
            (lambda sym: lambda sc, i, j: sc.bdd.apply(sym, H(sc, i), H(sc, j))
             if sc.auto else sc.raw.apply(sym, H(sc, i), H(sc, j)))(sym),
            (lambda g: lambda U, sc, i, j: U.op(g, M(sc, i), M(sc, j)))(g))
    reg('apply:ite', lambda sc, i, j: (sc.bdd if sc.auto else sc.raw).apply(
        'ite', H(sc, i), H(sc, j), H(sc, i + j + 1)),
        lambda U, sc, i, j: U.ite(M(sc, i), M(sc, j), M(sc, i + j + 1)))
    reg('ite', lambda sc, i, j: (sc.bdd if sc.auto else sc.raw).ite(
        H(sc, j), H(sc, i), H(sc, i + 2 * j + 3)),
        lambda U, sc, i, j: U.ite(M(sc, j), M(sc, i), M(sc, i + 2 * j + 3)))
    reg('Function:&', lambda sc, i, j: H(sc, i) & H(sc, j),
        lambda U, sc, i, j: M(sc, i) & M(sc, j), 'auto')
    reg('Function:|', lambda sc, i, j: H(sc, i) | ~H(sc, j),
        lambda U, sc, i, j: M(sc, i) | (U.full ^ M(sc, j)), 'auto')
    reg('Function:equiv', lambda sc, i, j: H(sc, i).equiv(H(sc, j)),
        lambda U, sc, i, j: U.full ^ M(sc, i) ^ M(sc, j), 'auto')
    reg('Function:<=', lambda sc, i, j: H(sc, i) <= H(sc, j),
        lambda U, sc, i, j: (M(sc, i) & (U.full ^ M(sc, j))) == 0, 'auto-bool')

    def q(sc, i, j, fa):
        nm = sc.names
        qs = [nm[j % 4], nm[(j + 1 + i % 3) % 4]]
        return qs
    reg('exist', lambda sc, i, j: (sc.bdd if sc.auto else sc.raw).exist(q(sc, i, j, 0), H(sc, i)),
        lambda U, sc, i, j: U.exists(M(sc, i), q(sc, i, j, 0)))
    # one-shot iterators: a retry after reordering must see the same variables (F16)
    reg('exist:iterator', lambda sc, i, j: (sc.bdd if sc.auto else sc.raw).exist(
        (v for v in q(sc, i, j, 0)), H(sc, i)),
        lambda U, sc, i, j: U.exists(M(sc, i), q(sc, i, j, 0)))
    reg('forall:iterator', lambda sc, i, j: (sc.bdd if sc.auto else sc.raw).forall(
        iter(q(sc, i, j, 1)), H(sc, i)),
        lambda U, sc, i, j: U.forall(M(sc, i), q(sc, i, j, 1)))
    reg('forall', lambda sc, i, j: (sc.bdd if sc.auto else sc.raw).forall(
        q(sc, i, j, 1), H(sc, i)),
        lambda U, sc, i, j: U.forall(M(sc, i), q(sc, i, j, 1)))
    reg('quantify', lambda sc, i, j: (sc.bdd if sc.auto else sc.raw).quantify(
        H(sc, i), set(q(sc, i, j, 0)), forall=bool(j % 2)),
        lambda U, sc, i, j: U.quantify(M(sc, i), q(sc, i, j, 0), bool(j % 2)))
    reg('apply:\\E', lambda sc, i, j: (sc.bdd if sc.auto else sc.raw).apply(
        '\\E', H(sc, 2), H(sc, i)),
        lambda U, sc, i, j: U.exists(M(sc, i), sorted(U.support(M(sc, 2)))))

    def consts(sc, j):
        nm = sc.names
        return {nm[j % 4]: True, nm[(j + 2) % 4]: False}
    reg('let:const', lambda sc, i, j: (sc.bdd if sc.auto else sc.raw).let(
        consts(sc, j), H(sc, i)),
        lambda U, sc, i, j: U.restrict(M(sc, i), consts(sc, j)))
    reg('let:fn1', lambda sc, i, j: (sc.bdd if sc.auto else sc.raw).let(
        {sc.names[j % 4]: H(sc, j)}, H(sc, i)),
        lambda U, sc, i, j: U.compose(M(sc, i), {sc.names[j % 4]: M(sc, j)}))
    reg('let:fn2', lambda sc, i, j: (sc.bdd if sc.auto else sc.raw).let(
        {sc.names[j % 4]: H(sc, j), sc.names[(j + 1) % 4]: H(sc, i + 4)}, H(sc, i)),
        lambda U, sc, i, j: U.compose(M(sc, i), {sc.names[j % 4]: M(sc, j),
                                                 sc.names[(j + 1) % 4]: M(sc, i + 4)}))

    def ren(sc, j):
        nm = sc.names
        if j % 2:
            return {nm[0]: nm[2], nm[2]: nm[0]}
        return {nm[j % 4]: nm[(j + 1) % 4]}
    reg('let:rename', lambda sc, i, j: (sc.bdd if sc.auto else sc.raw).let(ren(sc, j), H(sc, i)),
        lambda U, sc, i, j: U.rename(M(sc, i), ren(sc, j)))

    reg('rename:function', lambda sc, i, j: _bdd.rename(
        O.node_of(H(sc, i)), sc.raw, ren(sc, j)),
        lambda U, sc, i, j: U.rename(M(sc, i), ren(sc, j)), 'raw')
    reg('Function:exist', lambda sc, i, j: H(sc, i).exist(*q(sc, i, j, 0)),
        lambda U, sc, i, j: U.exists(M(sc, i), q(sc, i, j, 0)), 'auto')
    reg('Function:let', lambda sc, i, j: H(sc, i).let(**{sc.names[j % 4]: H(sc, j)}),
        lambda U, sc, i, j: U.compose(M(sc, i), {sc.names[j % 4]: M(sc, j)}), 'auto')

    def cube(sc, i, j):
        nm = sc.names
        return {nm[i % 4]: True, nm[(i + 1) % 4]: bool(j % 2), nm[(i + 2) % 4]: False}
    reg('cube', lambda sc, i, j: (sc.bdd if sc.auto else sc.raw).cube(cube(sc, i, j)),
        lambda U, sc, i, j: U.cube_mask(cube(sc, i, j)))
    reg('var', lambda sc, i, j: (sc.bdd if sc.auto else sc.raw).var(sc.names[(i + j) % 4]),
        lambda U, sc, i, j: U.var(sc.names[(i + j) % 4]))

    def exprs(sc, i, j):
        x, xp, y, yp = sc.names
        n = O.node_of(H(sc, i))
        return [
            f'{x} /\\ ({y} \\/ ~ {yp}) /\\ @{n}',
            f'\\E {x}, {y}: (({x} <=> {xp}) /\\ ({y} # {yp}) /\\ @{n})',
            f'\\S {xp} / {x}: (@{n} => {y})',
            f'ite(@{n}, {xp} - {y}, ~ {x}) <-> {yp}',
            f'\\A {yp}: (@{n} \\/ {yp} \\/ {x} & {xp})',
            f'({x} ^ {xp} ^ {y} ^ {yp}) | @{-n}',
        ][j % 6]

    def exprs_want(U, sc, i, j):
        x, xp, y, yp = (U.var(n) for n in sc.names)
        nx, nxp, ny, nyp = sc.names
        F = U.full
        m = M(sc, i)
        k = j % 6
        if k == 0:
            return x & (y | (F ^ yp)) & m
        if k == 1:
            return U.exists((F ^ (x ^ xp)) & (y ^ yp) & m, [nx, ny])
        if k == 2:
            return U.rename((F ^ m) | y, {nx: nxp})
        if k == 3:
            return F ^ (U.ite(m, xp & (F ^ y), F ^ x) ^ yp)
        if k == 4:
            return U.forall(m | yp | (x & xp), [nyp])
        return (x ^ xp ^ y ^ yp) | (F ^ m)
    reg('add_expr', lambda sc, i, j: (sc.bdd if sc.auto else sc.raw).add_expr(exprs(sc, i, j)),
        exprs_want)
    # copies INTO the manager
    reg('copy:BDD.copy', lambda sc, i, j: sc.src.copy(sc.src_h[i % 12], sc.bdd),
        lambda U, sc, i, j: sc.G[i % 12], 'auto')
    reg('copy:autoref.copy_bdd', lambda sc, i, j: _autoref.copy_bdd(sc.src_h[i % 12], sc.bdd),
        lambda U, sc, i, j: sc.G[i % 12], 'auto')
    reg('copy:_copy.copy_bdd', lambda sc, i, j: _copy.copy_bdd(sc.src_h[i % 12], sc.bdd),
        lambda U, sc, i, j: sc.G[i % 12], 'auto')
    reg('copy:copy_bdds_from', lambda sc, i, j: _copy.copy_bdds_from(
        [sc.src_h[i % 12], sc.src_h[j % 12]], sc.bdd),
        lambda U, sc, i, j: [sc.G[i % 12], sc.G[j % 12]], 'auto-list')
    reg('copy:bdd.copy_bdd', lambda sc, i, j: _bdd.copy_bdd(
        sc.src_h[i % 12].node, sc.src._bdd, sc.raw),
        lambda U, sc, i, j: sc.G[i % 12], 'raw')
    # loads
    reg('load:pickle', lambda sc, i, j: (sc.bdd if sc.auto else sc.raw).load(
        sc.files[i % 12][0], levels=False),
        lambda U, sc, i, j: [sc.G[i % 12]], 'list')
    reg('load:json', lambda sc, i, j: sc.bdd.load(sc.files[i % 12][1]),
        lambda U, sc, i, j: {'r': sc.G[i % 12], 's': sc.G[(i + 5) % 12]}, 'auto-dict')

    def pre_args(sc, j):
        x, xp, y, yp = sc.names
        return [({x: xp, y: yp}, {xp, yp}), ({x: xp}, {xp, y}), ({y: yp}, {yp})][j % 3]

    def img_args(sc, j):
        x, xp, y, yp = sc.names
        return [({xp: x, yp: y}, {x, y}), ({xp: x}, {x, yp}), ({yp: y}, {y})][j % 3]

    def pre_ok(sc, i, j):
        ren, qv = pre_args(sc, j)
        tgt = sc.masks[(i + j + 2) % 12]
        o = sc.order
        return (all(abs(o[a] - o[b]) == 1 for a, b in ren.items()) and
                not (sc.U.support(tgt) & set(ren.values())))

    def img_ok(sc, i, j):
        ren, qv = img_args(sc, j)
        sup = (sc.U.support(M(sc, i)) | sc.U.support(M(sc, i + j + 2))) - set(qv)
        return not (sup & set(ren.values()))

    def pre_call(sc, i, j):
        ren, qv = pre_args(sc, j)
        if sc.auto:
            return _autoref.preimage(H(sc, i), H(sc, i + j + 2), ren, qv, bool(i % 2))
        return _bdd.preimage(H(sc, i), H(sc, i + j + 2), ren, qv, sc.raw, bool(i % 2))

    def img_call(sc, i, j):
        ren, qv = img_args(sc, j)
        if sc.auto:
            return _autoref.image(H(sc, i), H(sc, i + j + 2), ren, qv, bool(i % 2))
        return _bdd.image(H(sc, i), H(sc, i + j + 2), ren, qv, sc.raw, bool(i % 2))
    reg('preimage', pre_call, lambda U, sc, i, j: U.quantify(
        M(sc, i) & U.rename(M(sc, i + j + 2), pre_args(sc, j)[0]),
        sorted(pre_args(sc, j)[1]), bool(i % 2)))
    ops['preimage'] += (pre_ok,)
    reg('image', img_call, lambda U, sc, i, j: U.rename(U.quantify(
        M(sc, i) & M(sc, i + j + 2), sorted(img_args(sc, j)[1]), bool(i % 2)),
        img_args(sc, j)[0]))
    ops['image'] += (img_ok,)

    def foa_triples(sc):
        """All (variable, low index, high index) whose level precondition holds in the
        STARTING order (the caller cannot know about an internal reordering)."""
        out = []
        for v in sc.names:
            lv = sc.raw.vars[v]
            for a in range(len(sc.h)):
                la = sc.raw.succ(O.node_of(sc.h[a]))[0]
                if not lv < la:
                    continue
                for b in range(len(sc.h)):
                    if a != b and lv < sc.raw.succ(O.node_of(sc.h[b]))[0]:
                        out.append((v, a, b))
        return out

    def foa_pick(sc, i, j):
        ts = foa_triples(sc)
        return ts[(i * 12 + j) % len(ts)] if ts else None

    def foa_ok(sc, i, j):
        return foa_pick(sc, i, j) is not None

    def foa_call(sc, i, j):
        v, a, b = foa_pick(sc, i, j)
        sc.last_foa = (v, a, b)     # chosen in the order the caller sees before the call
        if sc.auto:
            return sc.bdd.find_or_add(v, sc.h[a], sc.h[b])
        return sc.raw.find_or_add(sc.raw.vars[v], sc.h[a], sc.h[b])

    def foa_want(U, sc, i, j):
        v, a, b = sc.last_foa
        return U.ite(U.var(v), sc.masks[b], sc.masks[a])
    reg('find_or_add', foa_call, foa_want)
    ops['find_or_add'] += (foa_ok,)
    return ops


OPS = _ops()
AUTO_ONLY = {n for n, v in OPS.items() if v[2].startswith('auto')}
CORE = ['apply:and', 'apply:xor', 'ite', 'exist', 'exist:iterator', 'let:fn2', 'let:rename', 'add_expr',
        'copy:BDD.copy', 'load:pickle', 'load:json', 'preimage', 'image', 'cube',
        'Function:<=', 'find_or_add']


def applicable(name, sc, i, j):
    v = OPS[name]
    if not sc.auto and name in AUTO_ONLY:
        return False
    if len(v) > 3:
        return v[3](sc, i, j)
    return True


def judge(name, sc, i, j, r):
    """Compare the result with the model; returns (mask-ish for holding) or raises Violation."""
    call, want, kind = OPS[name][:3]
    U = sc.U
    w = want(U, sc, i, j)
    den = O.Den(sc.raw, U)
    if kind.endswith('bool'):
        if bool(r) != bool(w):
            raise Violation('the operation returned the wrong truth value')
        return []
    if kind.endswith('list') or kind == 'list':
        if len(r) != len(w):
            raise Violation('wrong number of results')
        for a, b in zip(r, w):
            if den(a) != b:
                raise Violation('a result denotes the wrong function')
        return list(zip(r, w))
    if kind.endswith('dict'):
        if set(r) != set(w):
            raise Violation('wrong result names')
        for k in w:
            if den(r[k]) != w[k]:
                raise Violation('a result denotes the wrong function')
        return [(r[k], w[k]) for k in w]
    if den(r) != w:
        raise Violation('the result denotes the wrong function',
                        got=U.fmt(den(r)), want=U.fmt(w))
    return [(r, w)]


def run_once(seam, oi, auto, steps, mode):
    """steps: list of (opname, i, j, fire-set or threshold). Returns (outcome, info).

    mode 'off'  : reordering disabled (baseline for the model comparison)
         'force': enabled, threshold out of reach, fire at given positions
         'nat'  : enabled, threshold = value given per step (first op) - natural triggering
         'cfg'  : configure(reordering=True) with REORDER_STARTS lowered to the given value
    """
    sc = Scenario(oi, auto)
    info = dict(K=[], peak=[], reorders=0, skipped=False)
    saved_starts = _bdd.REORDER_STARTS
    try:
        if mode == 'off':
            sc.bdd.configure(reordering=False)
        elif mode in ('force', 'force-reverse', 'force-rotate'):
            sc.enable(10 ** 9)
            seam.target_mode = mode[6:] or None
        elif mode == 'nat':
            sc.enable(steps[0][3])
        elif mode == 'cfg':
            _bdd.REORDER_STARTS = steps[0][3]
            sc.bdd.configure(reordering=True)
        ids0 = [O.node_of(h) for h in sc.h]
        for si, (name, i, j, dev) in enumerate(steps):
            if not applicable(name, sc, i, j):
                info['skipped'] = True
                return None, info
            seam.arm(dev if mode.startswith('force') else ())
            try:
                r = OPS[name][0](sc, i, j)
            except Exception as e:  # noqa
                seam.disarm()
                env.settle()
                raise Violation('the operation raised %s' % type(e).__name__,
                                step=si, error=str(e)[:160])
            seam.disarm()
            info['K'].append(seam.count)
            info['peak'].append(seam.peak)
            info['reorders'] += seam.reorders
            try:
                held = judge(name, sc, i, j, r)
            except Violation as v:
                v.detail['step'] = si
                raise
            for h, w in held:
                if sc.auto and not isinstance(h, int):
                    sc.extra.append((h, w))
            del r, held
            if mode != 'off':
                sc.observe(ids0)
                ids0 = [O.node_of(h) for h in sc.h]
        return True, info
    finally:
        _bdd.REORDER_STARTS = saved_starts
        seam.target_mode = None
        seam.disarm()


def _sig(name, v):
    return '%s:%s' % (name, v.what)


def task_single(t):
    """All single deviations (forced k) and natural thresholds for one (order, op, operands)."""
    _, oi, auto, name, pairs, natural, focus = t
    rep = run.Report()
    rec = sweep.Rec(rep)
    seam = Seam()
    if not seam.available():
        rep.note('seam dd.bdd._request_reordering absent: forced-position mode skipped')
        return rep
    with seam:
        for (i, j) in pairs:
            if focus is not None and [i, j] != list(focus[:2]):
                continue
            base = dict(task=t[:-1] + ((i, j),), op=name, i=i, j=j, order=oi, auto=auto)
            # baseline: reordering off, compared with the model
            try:
                ok, info = run_once(seam, oi, auto, [(name, i, j, ())], 'off')
            except Violation as v:
                rec('baseline:' + _sig(name, v), v.what + ' (reordering disabled)',
                    dict(base, mode='off'), **v.detail)
                continue
            if info['skipped']:
                rep.add('skipped_precondition')
                continue
            rep.add('evaluations')
            # 0 deviations
            try:
                ok, info0 = run_once(seam, oi, auto, [(name, i, j, ())], 'force')
            except Violation as v:
                rec('enabled:' + _sig(name, v), v.what + ' (enabled, never fires)',
                    dict(base, mode='force', fire=[]), **v.detail)
                continue
            K = info0['K'][0]
            rep.add('evaluations')
            rep.max('K', K)
            rep.mark('ops', name)
            for k in range(1, K + 3):
                try:
                    ok, inf = run_once(seam, oi, auto, [(name, i, j, (k,))], 'force')
                    if inf['reorders']:
                        rep.add('runs_with_real_reordering')
                        rep.add('nontrivial')
                except Violation as v:
                    rec('forced:' + _sig(name, v), v.what + ' (forced at position %d)' % k,
                        dict(base, mode='force', fire=[k]), **v.detail)
                rep.add('evaluations')
                rep.add('schedules')
                # the same deviation, but the reordering ends in a chosen permutation
                fmode = ('force-reverse', 'force-rotate')[(k + i + j) % 2]
                try:
                    ok, inf = run_once(seam, oi, auto, [(name, i, j, (k,))], fmode)
                    if inf['reorders']:
                        rep.add('runs_with_chosen_final_order')
                except Violation as v:
                    rec('forced:' + _sig(name, v),
                        v.what + ' (forced at position %d, reordering ends in the %s order)' % (
                            k, fmode[6:] + 'd'),
                        dict(base, mode=fmode, fire=[k]), **v.detail)
                rep.add('evaluations')
                rep.add('schedules')
            if natural:
                n0 = len(Scenario(oi, auto).raw)
                for L in range(max(2, n0 - 1), info0['peak'][0] + 3):
                    try:
                        ok, inf = run_once(seam, oi, auto, [(name, i, j, L / 2)], 'nat')
                        if inf['reorders']:
                            rep.add('runs_with_real_reordering')
                            rep.add('nontrivial')
                    except Violation as v:
                        rec('natural:' + _sig(name, v),
                            v.what + ' (threshold reached at %d nodes)' % L,
                            dict(base, mode='nat', threshold=L / 2), **v.detail)
                    rep.add('evaluations')
                    rep.add('schedules')
                for starts in (0, 1, 2, 4, 100):
                    try:
                        ok, inf = run_once(seam, oi, auto, [(name, i, j, starts)], 'cfg')
                        if inf['reorders']:
                            rep.add('runs_with_real_reordering')
                            rep.add('nontrivial')
                    except Violation as v:
                        rec('configured:' + _sig(name, v),
                            v.what + ' (configure(reordering=True), REORDER_STARTS=%d)' % starts,
                            dict(base, mode='cfg', starts=starts), **v.detail)
                    rep.add('evaluations')
                    rep.add('schedules')
    if focus is None and pairs:
        rep.sample(dict(op=name, operands=list(pairs[0]), order=sweep.order_str(ORDERS()[oi]),
                        manager='autoref' if auto else 'bdd',
                        schedules='fire at k for k=1..K+2; thresholds L=n0-1..peak+2; '
                                  'REORDER_STARTS in {0,1,2,4,100}'))
    return rep


def task_double(t):
    """Two deviations: every (k1, k2) over an ordered pair of operations."""
    _, oi, auto, n1, n2, i, j, focus = t
    rep = run.Report()
    rec = sweep.Rec(rep)
    seam = Seam()
    if not seam.available():
        return rep
    base = dict(task=t, ops=[n1, n2], i=i, j=j, order=oi, auto=auto)
    with seam:
        steps0 = [(n1, i, j, ()), (n2, j, i, ())]
        try:
            ok, info = run_once(seam, oi, auto, steps0, 'off')
            if info['skipped']:
                rep.add('skipped_precondition')
                return rep
            ok, info0 = run_once(seam, oi, auto, steps0, 'force')
        except Violation as v:
            rec('pair-baseline:%s+%s:%s' % (n1, n2, v.what), v.what, dict(base, fire=[[], []]),
                **v.detail)
            return rep
        if info0['skipped']:
            rep.add('skipped_precondition')
            return rep
        K1, K2 = info0['K']
        rep.add('evaluations', 2)
        for k1 in range(1, K1 + 1):
            for k2 in range(1, K2 + 3):
                try:
                    ok, inf = run_once(seam, oi, auto,
                                       [(n1, i, j, (k1,)), (n2, j, i, (k2,))], 'force')
                    if inf['skipped']:
                        rep.add('skipped_precondition')
                        continue
                    if inf['reorders'] >= 2:
                        rep.add('runs_with_two_reorderings')
                        rep.add('nontrivial')
                except Violation as v:
                    rec('forced2:%s+%s:%s' % (n1, n2, v.what),
                        v.what + ' (forced at positions %d then %d)' % (k1, k2),
                        dict(base, fire=[[k1], [k2]]), **v.detail)
                rep.add('evaluations')
                rep.add('schedules')
    if focus is None:
        rep.sample(dict(ops=[n1, n2], operands=[i, j], order=sweep.order_str(ORDERS()[oi]),
                        schedules='all (k1,k2), k1=1..K1, k2=1..K2+2'))
    return rep


TASKS = dict(s=task_single, d=task_double)


def dispatch(t):
    return TASKS[t[0]](t)


def _pairs(n):
    allp = [(i, j) for i in range(12) for j in range(12)]
    if n >= len(allp):
        return allp
    step = len(allp) / n
    return [allp[int(k * step + (k * 5) % 7) % len(allp)] for k in range(n)]


def plan(tier):
    ts = []
    names = list(OPS)
    if tier == 'quick':
        for oi in range(4):
            for name in names:
                ps = _pairs(6)
                sel = tuple(ps[oi::2][:3])
                if name.startswith(('copy:', 'load:')):
                    # the first operand index selects the copied / loaded function: all twelve
                    sel = tuple((i, (5 * i + oi) % 12) for i in range(12))
                ts.append(('s', oi, True, name, sel, name in CORE, None))
        for name in names:
            if name not in AUTO_ONLY:
                ts.append(('s', 0, False, name, tuple(_pairs(4)), False, None))
        k = 0
        for n1 in CORE[:8]:
            for n2 in CORE[:8]:
                k += 1
                ts.append(('d', k % 4, True, n1, n2, (3 * k) % 12, (5 * k + 1) % 12, None))
    else:
        for oi in range(4):
            for name in names:
                ps = _pairs(36)
                for c in range(0, len(ps), 6):
                    ts.append(('s', oi, True, name, tuple(ps[c:c + 6]), True, None))
                if name not in AUTO_ONLY:
                    ts.append(('s', oi, False, name, tuple(_pairs(12)), True, None))
        k = 0
        for n1 in CORE:
            for n2 in CORE:
                for rpt in range(2):
                    k += 1
                    ts.append(('d', k % 4, True, n1, n2, (3 * k) % 12, (5 * k + 1) % 12, None))
    return ts


def replay(case):
    t = case.get('task')
    seam = Seam()
    if 'mode' in case and seam.available():
        name, i, j = case['op'], case['i'], case['j']
        fire = tuple(case.get('fire', ()))
        dev = {'off': (), 'force': fire, 'force-reverse': fire, 'force-rotate': fire,
               'nat': case.get('threshold'), 'cfg': case.get('starts')}[case['mode']]
        with seam:
            try:
                run_once(seam, case['order'], case['auto'], [(name, i, j, dev)], case['mode'])
            except Violation as v:
                return v.what
        return None
    if 'ops' in case and seam.available():
        n1, n2 = case['ops']
        i, j = case['i'], case['j']
        f1, f2 = case['fire']
        with seam:
            try:
                run_once(seam, case['order'], case['auto'],
                         [(n1, i, j, tuple(f1)), (n2, j, i, tuple(f2))], 'force')
            except Violation as v:
                return v.what
        return None
    if t is not None:
        # a generic report (exception escaping from the library, task set-up, time limit)
        return sweep.replay_by_task(dispatch)(case)
    return None


def main(tier, t0):
    tasks = plan(tier)
    rep = run.Report()
    run.pmerge(dispatch, tasks, rep)
    run.close_pool()
    ev = rep.counts.get('evaluations', 0)
    sched = rep.counts.get('schedules', 0)
    cov = dict(
        states=max(1, rep.counts.get('runs_with_real_reordering', 0) +
                   rep.counts.get('runs_with_two_reorderings', 0)),
        transitions=max(1, sched),
        traces_validated_against_impl=ev,
        evaluations=ev,
        distinct_nontrivial=rep.counts.get('nontrivial', 0),
        rule=('a schedule = (starting order, operation, operands, firing plan); firing plans: '
              'none, every single position k=1..K+2 (K = requests counted in the no-firing '
              'run), every natural threshold from the current size-1 to the peak size+2, '
              'configure(reordering=True) with REORDER_STARTS in {0,1,2,4,100}, and every pair '
              '(k1,k2) over ordered pairs of core operations; non-trivial = the library really '
              'reordered during the run (dd.bdd.reorder was entered); every execution runs on '
              'the real code from a freshly rebuilt scenario, so each explored schedule IS an '
              'implementation trace (states := runs in which reordering really happened, '
              'transitions := schedules executed)'),
        exhaustive=True,
        deviation_bound_completed=2,
        operations=sorted(OPS),
        core_operations_for_pairs=CORE if tier == 'thorough' else CORE[:8],
        tasks=len(tasks),
        max_requests_in_one_operation=rep.maxima.get('K', 0))
    return run.finish(PROP, 'model_checking', tier, rep, t0, cov,
                      assumptions=[
                          'seam: module attribute dd.bdd._request_reordering resolved at call time; '
                          'forcing = threshold attribute set to 0 for that one call, then the '
                          "library's own function decides and raises its own signal",
                          'baseline (reordering disabled) is itself compared with the truth-table '
                          'model'],
                      replay_fn=replay)
