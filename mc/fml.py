"""Independent evaluator of the documented formula grammar (doc.md, section
"Syntax for quantified Boolean formulas"): a hand-written tokenizer and a
precedence-climbing parser that produce truth-table masks. Knows nothing of PLY.

Precedence, lowest to highest (doc.md): ':'  <=>,<->  =>,->  -  #,^  \\/,|  /\\,&  =  ~,!
All binary operators associate to the left. A binder (\\A, \\E, \\S) extends as far to
the right as possible (':' has the lowest precedence).
"""
import re


class FormulaError(Exception):
    pass


_TOKEN = re.compile(r'''
    (?P<comment2>\(\*[\s\S]*?\*\)) |
    (?P<comment1>\\\*[^\n]*) |
    (?P<ws>[ \t\n]+) |
    (?P<A>\\A) | (?P<E>\\E) | (?P<S>\\S) |
    (?P<equiv><=>|<->) |
    (?P<implies>=>|->) |
    (?P<and>/\\|&&|&) |
    (?P<or>\\/|\|\||\|) |
    (?P<xor>\#|\^) |
    (?P<not>~|!) |
    (?P<eq>=) |
    (?P<minus>-) |
    (?P<div>/) |
    (?P<at>@) |
    (?P<colon>:) | (?P<comma>,) | (?P<lp>\() | (?P<rp>\)) |
    (?P<num>\d+) |
    (?P<name>[A-Za-z_][A-Za-z0-9_'.]*)
''', re.X)

PREC = {'equiv': 1, 'implies': 2, 'minus': 3, 'xor': 4, 'or': 5, 'and': 6}
PREC_NOT = 8


def tokenize(s):
    out = []
    i = 0
    while i < len(s):
        m = _TOKEN.match(s, i)
        if not m:
            raise FormulaError('illegal character at %d: %r' % (i, s[i]))
        k = m.lastgroup
        i = m.end()
        if k in ('ws', 'comment1', 'comment2'):
            continue
        out.append((k, m.group(k)))
    return out


class Evaluator:
    """U: Universe; node_mask(int) -> mask of the reference '@int' (or raises)."""

    def __init__(self, U, node_mask=None):
        self.U = U
        self.node_mask = node_mask

    def __call__(self, s):
        self.toks = tokenize(s)
        self.i = 0
        v = self.expr(0)
        if self.i != len(self.toks):
            raise FormulaError('trailing tokens')
        return v

    def peek(self):
        return self.toks[self.i] if self.i < len(self.toks) else (None, None)

    def take(self, kind=None):
        k, v = self.peek()
        if k is None or (kind is not None and k != kind):
            raise FormulaError('expected %s, got %r' % (kind, v))
        self.i += 1
        return v

    def expr(self, min_prec):
        U = self.U
        lhs = self.prefix()
        while True:
            k, _ = self.peek()
            p = PREC.get(k)
            if p is None or p < min_prec:
                return lhs
            self.i += 1
            rhs = self.expr(p + 1)
            if k == 'equiv':
                lhs = U.full ^ (lhs ^ rhs)
            elif k == 'implies':
                lhs = (U.full ^ lhs) | rhs
            elif k == 'minus':
                lhs = lhs & (U.full ^ rhs)
            elif k == 'xor':
                lhs = lhs ^ rhs
            elif k == 'or':
                lhs = lhs | rhs
            else:
                lhs = lhs & rhs

    def names(self):
        out = [self.take('name')]
        while self.peek()[0] == 'comma':
            self.i += 1
            out.append(self.take('name'))
        return out

    def prefix(self):
        U = self.U
        k, v = self.peek()
        if k == 'not':
            self.i += 1
            return U.full ^ self.expr(PREC_NOT)
        if k in ('A', 'E'):
            self.i += 1
            ns = self.names()
            self.take('colon')
            body = self.expr(0)
            for n in ns:
                if n not in U.idx:
                    raise FormulaError('undeclared ' + n)
            return U.forall(body, ns) if k == 'A' else U.exists(body, ns)
        if k == 'S':
            self.i += 1
            ren = {}
            while True:
                new = self.take('name')
                self.take('div')
                old = self.take('name')
                ren[old] = new
                if self.peek()[0] != 'comma':
                    break
                self.i += 1
            self.take('colon')
            body = self.expr(0)
            return U.rename(body, ren)
        if k == 'lp':
            self.i += 1
            v = self.expr(0)
            self.take('rp')
            return v
        if k == 'at':
            self.i += 1
            neg = False
            if self.peek()[0] == 'minus':
                self.i += 1
                neg = True
            n = int(self.take('num'))
            return self.node_mask(-n if neg else n)
        if k == 'name':
            self.i += 1
            if v == 'ite':
                self.take('lp')
                a = self.expr(0)
                self.take('comma')
                b = self.expr(0)
                self.take('comma')
                c = self.expr(0)
                self.take('rp')
                return U.ite(a, b, c)
            if v in ('TRUE', 'True', 'true'):
                return U.full
            if v in ('FALSE', 'False', 'false'):
                return 0
            if v not in U.idx:
                raise FormulaError('undeclared ' + v)
            return U.var(v)
        raise FormulaError('unexpected token %r' % (v,))
