"""Environment: import `dd` from the repository working tree, own nondeterminism."""
import gc
import logging
import os
import sys
import tempfile
import warnings

VERIF_DIR = os.path.dirname(os.path.dirname(os.path.abspath(__file__)))
REPO = os.environ.get('DD_REPO', '/repo')
SEED = int(os.environ.get('VERIF_SEED', '0') or 0)
NPROC = int(os.environ.get('VERIF_NPROC', '0') or 0) or min(16, os.cpu_count() or 1)

if REPO not in sys.path or sys.path[0] != REPO:
    sys.path.insert(0, REPO)

import dd  # noqa: E402
import dd.bdd  # noqa: E402
import dd.autoref  # noqa: E402
import dd._copy  # noqa: E402
import dd._parser  # noqa: E402
import dd._abc  # noqa: E402
import dd._utils  # noqa: E402

_dd_file = os.path.realpath(dd.__file__)
if not _dd_file.startswith(os.path.realpath(REPO) + os.sep):
    raise RuntimeError(
        f'harness error: dd imported from {_dd_file}, expected under {REPO}')

for _name in ('dd', 'dd.bdd', 'dd.autoref', 'dd._copy', 'dd.mdd',
              'dd.dddmp', 'dd._parser', 'astutils', 'ply'):
    logging.getLogger(_name).setLevel(logging.CRITICAL)
logging.getLogger('dd').propagate = False
logging.getLogger('dd').addHandler(logging.NullHandler())
warnings.simplefilter('ignore')

_scratch = None


def scratch_dir():
    """Per-process scratch directory (cwd is moved there)."""
    global _scratch
    pid = os.getpid()
    if _scratch is None or _scratch[0] != pid:
        base = os.environ.get('VERIF_TMP') or tempfile.gettempdir()
        d = tempfile.mkdtemp(prefix='ddmc-', dir=base)
        _scratch = (pid, d)
        os.chdir(d)
        import atexit
        import shutil

        def _rm(d=d, pid=pid):
            if os.getpid() == pid:
                try:
                    os.chdir('/')
                except OSError:
                    pass
                shutil.rmtree(d, ignore_errors=True)
        atexit.register(_rm)
    return _scratch[1]


def settle():
    """Let pending finalisers run (dropped Functions give their references back)."""
    gc.collect()


_unraisable = []


def _hook(u):
    """Finalisers of half-constructed library objects (e.g. a Function whose constructor
    refused the node) print 'Exception ignored'; record instead of printing."""
    _unraisable.append(repr(u.exc_value)[:120])


sys.unraisablehook = _hook
