"""Transition systems over real dd.bdd.BDD managers (shared by C01, C02, C06, C07, C17)."""
import warnings

from . import env  # noqa: F401
from . import state as S
from . import oracle as O
from .oracle import Violation
from .ref import Universe
from .explore import Machine

import dd.bdd as _bdd


class St:
    """A state: real manager + harness ledger of held references."""
    __slots__ = ('m', 'h', 'b')

    def __init__(self, m, h, b=None):
        self.m = m
        self.h = h          # list of [signed node, external count, mask]
        self.b = b or []    # ballast: references held for the whole history, never operands

    def __getstate__(self):
        return (self.m, self.h, self.b)

    def __setstate__(self, s):
        if len(s) == 2:
            self.m, self.h = s
            self.b = []
        else:
            self.m, self.h, self.b = s


OPS = {'and': 'and', 'or': 'or', 'xor': 'xor', 'implies': 'implies',
       'equiv': 'equiv', 'diff': 'diff'}


class BddMachine(Machine):
    """Histories of node creation, operations, incref/decref, collections, swaps, reorderings."""
    name = 'bdd-history'

    def __init__(self, names, max_handles=3, max_ext=2, ops=('and', 'xor'),
                 with_ite=True, with_foa=True, with_reorder=True,
                 seeds=('fresh', 'used', 'swapped'), with_refops=True,
                 with_collect=True, with_swap=True, with_let=False, with_quant=False,
                 with_sort=False, with_twin=False, with_spare=False):
        self.with_twin = with_twin
        self.with_spare = with_spare
        self.names = tuple(names)
        self.U = Universe(self.names)
        self.max_handles = max_handles
        self.max_ext = max_ext
        self.ops = tuple(ops)
        self.with_ite = with_ite
        self.with_foa = with_foa
        self.with_reorder = with_reorder
        self.with_refops = with_refops
        self.with_collect = with_collect
        self.with_swap = with_swap
        self.with_let = with_let
        self.with_quant = with_quant
        self.with_sort = with_sort
        self._seeds = tuple(seeds)

    # ------------------------------------------------------------ seeds
    def seed_labels(self):
        return list(self._seeds)

    SPARE = '_spare'

    def seed(self, label):
        st = self._seed(label)
        if self.with_spare:
            # a declared, never used variable below the others: `undeclare` removes it
            st.m.add_var(self.SPARE)
        return st

    def _seed(self, label):
        U = self.U
        m = S.new_bdd({n: i for i, n in enumerate(self.names)})
        st = St(m, [])
        if label == 'fresh':
            return st
        if label == 'big':
            # a LARGE manager: every function of three different triples of the names is built
            # and held as ballast (several hundred nodes, node numbers above 256), then two
            # operands over far-apart variables are held as ordinary handles
            import itertools as _it
            from .sweep import Builder
            b = Builder(m, U)
            triples = list(_it.combinations(self.names, 3))[::3][:3]
            seen = set()
            for tr in triples:
                for f in U.all_functions(tr):
                    if f in seen or f in (0, U.full):
                        continue
                    seen.add(f)
                    r = b.verified(f)
                    m.incref(r)
                    st.b.append([r, 1, f])
            a, z = self.names[0], self.names[-1]
            for f in (U.var(a) & U.var(z), U.var(a) ^ U.var(self.names[len(self.names) // 2])):
                r = b.verified(f)
                m.incref(r)
                st.h.append([r, 1, f])
            # some garbage and a warm cache on top
            m.apply('or', st.h[0][0], st.h[1][0])
            return st
        if label == 'vars':
            # every variable node created (in declaration order) and held
            for n_ in self.names[:self.max_handles]:
                r = m.var(n_)
                m.incref(r)
                st.h.append([r, 1, U.var(n_)])
            return st
        # build every function of the first two names, hold two, release the rest
        a, b = self.names[0], self.names[1]
        x, y = m.var(a), m.var(b)
        m.incref(x)
        m.incref(y)
        made = []
        for op in ('and', 'or', 'xor', 'implies', 'equiv', 'diff'):
            for p in (x, -x):
                for q in (y, -y):
                    r = m.apply(op, p, q)
                    m.incref(r)
                    made.append(r)
        keep1 = m.apply('and', x, y)
        keep2 = m.apply('xor', x, y)
        m.incref(keep1)
        m.incref(keep2)
        for r in made:
            m.decref(r)
        m.decref(x)
        m.decref(y)
        m.collect_garbage()
        d = O.Den(m, U)
        st.h = [[keep1, 1, d(keep1)], [keep2, 1, d(keep2)]]
        if label == 'used':
            return st
        if label == 'swapped':
            m.swap(0, 1)
            m.swap(0, 1)
            return st
        if label == 'warm':
            # warm cache: results computed and remembered, operands still held
            m.apply('or', keep1, keep2)
            m.apply('and', keep1, -keep2)
            return st
        raise KeyError(label)

    # ------------------------------------------------------------ alphabet
    def actions(self, st):
        m, h = st.m, st.h
        acts = []
        nh = len(h)
        room = nh < self.max_handles
        if room:
            for n in self.names:
                acts.append(('var', n))
        idx = range(nh)
        for op in self.ops:
            for i in idx:
                for j in idx:
                    if room:
                        acts.append(('apply', op, i, j, 'hold'))
                    acts.append(('apply', op, i, j, 'drop'))
        if room:
            for i in idx:
                acts.append(('not', i))
        if self.with_ite:
            for i in idx:
                for j in idx:
                    for k in idx:
                        if i != j and i != k and j != k or nh < 3:
                            acts.append(('ite', i, j, k))
        if self.with_let:
            for i in idx:
                for n in self.names:
                    if room:
                        acts.append(('let', i, n, True))
                    acts.append(('let', i, n, False, 'drop'))
                    for j in idx:
                        if room:
                            acts.append(('compose', i, n, j))
                        else:
                            acts.append(('compose', i, n, j, 'drop'))
        if self.with_quant:
            for i in idx:
                for n in self.names:
                    if room:
                        acts.append(('exist', i, n))
                        acts.append(('forall', i, n))
                    else:
                        acts.append(('exist', i, n, 'drop'))
                        acts.append(('forall', i, n, 'drop'))
        if self.with_refops:
            for i in idx:
                if h[i][1] < self.max_ext:
                    acts.append(('incref', i))
                acts.append(('decref', i))
            acts.append(('decref_zero',))
        if self.with_twin:
            # an operation in a copy.copy() of the manager (an independent manager from then on)
            for op in self.ops:
                for i in idx:
                    for j in idx:
                        if i <= j:
                            acts.append(('twin', op, i, j))
            if not nh:
                acts.append(('twin', 'vars', 0, 0))
        if self.with_spare and self.SPARE in m.vars:
            acts.append(('undeclare',))
        if self.with_collect:
            acts.append(('collect',))
            for i in idx:
                acts.append(('collect_roots', i))
            acts.append(('collect_roots_zero',))
            acts.append(('collect_roots_empty',))
        if self.with_swap:
            for l in range(len(self.names) - 1):
                acts.append(('swap', l))
        if self.with_reorder:
            acts.append(('reorder',))
        if self.with_sort:
            import itertools
            n = len(self.names)
            for p in itertools.permutations(range(n)):
                if list(p) != sorted(p):
                    acts.append(('sort',) + p)
            for i in range(n):
                for j in range(n):
                    if i != j:
                        acts.append(('topairs', i, j))
        if self.with_foa and room:
            for l in range(len(self.names)):
                for i in idx:
                    for j in idx:
                        if i != j:
                            acts.append(('foa', l, i, j))
        return acts

    # ------------------------------------------------------------ transitions
    def _hold(self, st, r, mask):
        st.m.incref(r)
        for e in st.h:
            if e[0] == r:
                e[1] += 1
                return
        st.h.append([r, 1, mask])

    def apply(self, st, a, check=True):
        m, h, U = st.m, st.h, self.U
        kind = a[0]
        den = O.Den(m, U) if check else None
        if kind == 'var':
            r = m.var(a[1])
            if check and den(r) != U.var(a[1]):
                raise Violation('var denotes the wrong function', got=den(r))
            self._hold(st, r, U.var(a[1]))
        elif kind == 'apply':
            _, op, i, j, mode = a
            u, v = h[i][0], h[j][0]
            r = m.apply(op, u, v)
            want = U.op(OPS[op], h[i][2], h[j][2])
            if check and den(r) != want:
                raise Violation('apply result denotes the wrong function',
                                op=op, got=U.fmt(den(r)), want=U.fmt(want))
            if mode == 'hold':
                self._hold(st, r, want)
        elif kind == 'not':
            u = h[a[1]][0]
            r = m.apply('not', u)
            want = U.neg(h[a[1]][2])
            if check and den(r) != want:
                raise Violation('negation denotes the wrong function')
            self._hold(st, r, want)
        elif kind == 'ite':
            _, i, j, k = a
            r = m.ite(h[i][0], h[j][0], h[k][0])
            want = U.ite(h[i][2], h[j][2], h[k][2])
            if check and den(r) != want:
                raise Violation('ite result denotes the wrong function',
                                got=U.fmt(den(r)), want=U.fmt(want))
        elif kind == 'let':
            i, n, val = a[1], a[2], a[3]
            r = m.let({n: val}, h[i][0])
            want = U.restrict(h[i][2], {n: val})
            if check and den(r) != want:
                raise Violation('let (constants) denotes the wrong function')
            if a[-1] != 'drop':
                self._hold(st, r, want)
        elif kind == 'compose':
            i, n, j = a[1], a[2], a[3]
            r = m.let({n: h[j][0]}, h[i][0])
            want = U.compose(h[i][2], {n: h[j][2]})
            if check and den(r) != want:
                raise Violation('let (compose) denotes the wrong function')
            if a[-1] != 'drop':
                self._hold(st, r, want)
        elif kind in ('exist', 'forall'):
            i, n = a[1], a[2]
            r = m.quantify(h[i][0], {n}, forall=(kind == 'forall'))
            want = U.quantify(h[i][2], [n], kind == 'forall')
            if check and den(r) != want:
                raise Violation('quantify denotes the wrong function',
                                got=U.fmt(den(r)), want=U.fmt(want))
            if a[-1] != 'drop':
                self._hold(st, r, want)
        elif kind == 'undeclare':
            m.undeclare_vars(self.SPARE)
            if self.SPARE in m.vars or set(m.vars) != set(self.names):
                raise Violation('undeclare_vars did not remove exactly the named variable')
        elif kind == 'incref':
            m.incref(h[a[1]][0])
            h[a[1]][1] += 1
        elif kind == 'decref':
            e = h[a[1]]
            m.decref(e[0])
            e[1] -= 1
            if e[1] == 0:
                del h[a[1]]
        elif kind == 'decref_zero':
            z = self._zero_nodes(m)
            if z:
                with warnings.catch_warnings():
                    warnings.simplefilter('ignore')
                    m.decref(z[0])
        elif kind == 'twin':
            import copy
            t = copy.copy(m)
            _, op, i, j = a
            if op == 'vars':
                r = t.apply('xor', t.var(self.names[0]), t.var(self.names[-1]))
                want = U.var(self.names[0]) ^ U.var(self.names[-1])
            else:
                r = t.apply(op, h[i][0], -h[j][0])
                want = U.op(op, h[i][2], U.full ^ h[j][2])
            if check and O.Den(t, U)(r) != want:
                raise Violation('an operation in a copy.copy() of the manager gives a wrong '
                                'function')
            # a second operation in the twin re-uses what the first one left behind
            r2 = t.apply('or', r, t.var(self.names[0]))
            if check and O.Den(t, U)(r2) != want | U.var(self.names[0]):
                raise Violation('an operation in a copy.copy() of the manager gives a wrong '
                                'function')
            del t
        elif kind == 'collect':
            m.collect_garbage()
            if check:
                self._after_full_collect(st)
        elif kind == 'collect_roots':
            before = set(m._succ)
            m.collect_garbage(roots=[h[a[1]][0]])
            if check and set(m._succ) != before:
                raise Violation('a collection rooted at a referenced node freed nodes',
                                freed=sorted(before - set(m._succ)))
        elif kind == 'collect_roots_empty':
            before = set(m._succ)
            m.collect_garbage(roots=[])
            if check and set(m._succ) != before:
                raise Violation('a collection with an empty set of roots freed nodes',
                                freed=sorted(before - set(m._succ)))
        elif kind == 'collect_roots_zero':
            z = self._zero_nodes(m)
            if z:
                before = set(m._succ)
                m.collect_garbage(roots=[z[0]])
                if check:
                    keep = O.reachable(m, [e[0] for e in h + st.b])
                    freed = before - set(m._succ)
                    if freed & keep:
                        raise Violation('rooted collection freed a reachable node',
                                        nodes=sorted(freed & keep))
        elif kind == 'swap':
            m.swap(a[1], a[1] + 1)
        elif kind == 'reorder':
            n0 = len(m)
            m.collect_garbage()
            n0 = len(m)
            _bdd.reorder(m)
            if check and len(m) > n0:
                raise Violation('sifting ended with more nodes than it started with',
                                before=n0, after=len(m))
        elif kind == 'sort':
            # a[1:] = permutation applied to the CURRENT order
            cur = sorted(m.vars, key=m.vars.get)
            target = {cur[k]: a[1 + k] for k in range(len(cur))}
            _bdd.reorder(m, target)
            if check and dict(m.vars) != target:
                raise Violation('the requested order does not hold after reorder(order)')
        elif kind == 'topairs':
            cur = sorted(m.vars, key=m.vars.get)
            x, y = cur[a[1]], cur[a[2]]
            _bdd.reorder_to_pairs(m, {x: y})
            if check and abs(m.vars[x] - m.vars[y]) != 1:
                raise Violation('a requested pair is not adjacent after reorder_to_pairs')
        elif kind == 'foa':
            _, l, i, j = a
            u, v = h[i][0], h[j][0]
            lu = m.succ(u)[0]
            lv = m.succ(v)[0]
            if not (l < lu and l < lv):
                return
            r = m.find_or_add(l, u, v)
            x = U.var(m.var_at_level(l))
            want = U.ite(x, h[j][2], h[i][2])
            if check and den(r) != want:
                raise Violation('find_or_add denotes the wrong function')
            self._hold(st, r, want)
        else:
            raise KeyError(a)

    @staticmethod
    def _zero_nodes(m):
        return sorted(u for u, c in m._ref.items() if c == 0 and u != 1)

    def _after_full_collect(self, st):
        keep = O.reachable(st.m, [e[0] for e in st.h + st.b])
        have = set(st.m._succ)
        if have != keep:
            raise Violation(
                'after collect_garbage the stored nodes are not exactly the reachable ones',
                extra=sorted(have - keep), missing=sorted(keep - have))

    # ------------------------------------------------------------ invariants
    def invariant(self, st):
        m, h, U = st.m, st.h, self.U
        ext = {}
        for r, c, _ in h + st.b:
            ext[abs(r)] = ext.get(abs(r), 0) + c
        den = O.Den(m, U)
        O.check(m, ext, U, den)
        for r, c, mask in h + st.b:
            if abs(r) not in m._succ:
                raise Violation('held reference was deleted', ref=r)
            if den(r) != mask:
                raise Violation('held reference changed denotation', ref=r,
                                got=U.fmt(den(r)), want=U.fmt(mask))
            if hasattr(m, 'ref') and (m.ref(r) != m._ref[abs(r)] or m.ref(-r) != m._ref[abs(r)]):
                raise Violation('ref(u) does not report the reference count of the node', ref=r)
            if r not in m or -r not in m:
                raise Violation('a held reference is reported as not in the manager', ref=r)
        self.step_invariant(st)

    def step_invariant(self, st):
        # queries that a library may answer from a memory of its own: the replay must ask them
        # at the same points as the exploration did
        for r, c, mask in st.h[:3]:
            O.observe_queries(st.m, self.U, r, mask)

    def key(self, st):
        return S.key(st.m, (sorted(st.h), len(st.b)))

    def unexpected(self, exc, action):
        return 'exception:%s@%s' % (type(exc).__name__, action[0])


def mixed_machines(tier):
    """Histories that MIX operation kinds (connectives incl. implication, ite, quantifiers, let
    in its forms, collections, swaps) on one manager, every result compared with the model:
    a result remembered by one kind of operation must never be served to another."""
    q = tier == 'quick'
    a = dict(names=('x', 'y', 'z'), max_handles=3, max_ext=1, ops=('and', 'implies', 'xor'),
             with_ite=False, with_foa=False, with_refops=False, with_reorder=False,
             with_let=True, with_quant=True, seeds=('vars', 'used'))
    b = dict(names=('x', 'y'), max_handles=2, max_ext=1, ops=('or', 'implies', 'equiv', 'diff'),
             with_ite=True, with_foa=False, with_refops=False, with_let=True, with_quant=True,
             with_twin=True, seeds=('vars', 'used', 'warm'))
    out = []
    for label, kw, depth in (('mixed3', a, 2 if q else 3), ('mixed2', b, 3 if q else 4)):
        kw = dict(kw)
        mm = BddMachine(kw.pop('names'), **kw)
        mm.name = 'bdd-history/' + label
        out.append((mm, depth))
    return out
